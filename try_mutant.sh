#!/bin/bash
# usage: try_mutant.sh <patch.diff> <prop> [more props...]   -- applies the patch to /repo, runs the checks, reverts
P="$1"; shift
cd /repo || exit 2
if ! git diff --quiet; then echo "REPO DIRTY"; exit 2; fi
git apply "$P" || { echo "APPLY FAILED"; exit 2; }
for prop in "$@"; do
  out=$(cd /verif && VERIF_ROOT=/tmp/vr-mut ./check "$prop" quick 2>&1); rc=$?
  echo "[$prop] exit=$rc :: $(echo "$out" | grep -E "^violation class|HARNESS|KNOWN" | head -3 | cut -c1-260)"
done
git -C /repo checkout -- .
