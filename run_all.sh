#!/bin/bash
# Regenerates every claimed property's evidence with the registered quick command.
cd "$(dirname "$0")"
rc=0
for p in $(python3 -c "import json;print(' '.join(c['property_id'] for c in json.load(open('MANIFEST.json'))['checks']))"); do
  ./check "$p" quick | tail -n 3 | cut -c1-300
  r=${PIPESTATUS[0]}; [ "$r" != 0 ] && { echo "  -> $p exit $r"; rc=1; }
done
exit $rc
