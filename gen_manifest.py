#!/usr/bin/env python3
"""Regenerates MANIFEST.json from the table below (single source of truth)."""
import json

CLAIMED = {
 # id: (level, technique, text, note, design_ref)
 "C01": ("exploration", "deterministic simulation: seeded operation histories against R-STACK + twin per-symbol loop, iterator-error injection",
         "Seeded search over operation histories (encode/decode, all batch/reverse/fallible-iterator forms, export+re-import through six backend kinds incl. tiny bounded cursors whose writes fail and Reverse<Cursor>, clone, clear() as a restart, temporary decoders of six kinds, foreign decoders over the raw-binary payload) on every (Word,State) of the menu with extreme TableModels and library models; oracles: LIFO equality with the most recent un-popped encode of the same model, exported words restored at every pop, batch forms equal the per-symbol loop, state invariant, re-import never refused. Sampling, not proof.",
         "Trusted base: harness TableModel/FnModel adapters, the trace executor, R-STACK bookkeeping. Models are assumed well-formed (C03 is not decided here).", "DESIGN 3 C01"),
 "C02": ("exploration", "deterministic simulation: producer -> store -> consumer world in its fault-free configuration, workload steered into carry states by one-step look-ahead and adversarial table synthesis",
         "Messages (length 0..2000) over every (Word,State) of the menu with per-symbol precision changes are encoded into six sink kinds, sealed, and decoded through eight source kinds, optionally taking the decoder or the encoder apart (into_raw_parts) and reassembling it (from_raw_parts) between symbols, restarting the encoder with clear() (preferably while words are held back), sealing through into_compressed() or Vec::from(encoder), decoding through into_decoder() or RangeDecoder::from(encoder); oracles: FIFO equality, empty message => no words, maybe_exhausted after the last symbol, batch forms equal the loop. The generator uses the public encoder state to steer lower/range into Inverted situations (num_inverted>=3), carry / no-carry resolutions, seal-while-inverted and range == threshold.",
         "This is the fault-free configuration of the channel whose fault-injecting configurations are C09/C10/C11; TableModel trusted; sampling.", "DESIGN 3 C02"),
 "C10": ("exploration", "deterministic simulation with fault injection at the data seam: garbage, truncated, bit-flipped, extended and head-cut streams, wrong model sequences, read errors, fed to the consumers of all three stream coders",
         "Decoders of the ANS coder (from_compressed / from_binary over Vec, slice cursor, fallible iterator), the range decoder (owned, borrowed, iterator source) and the chain coder (both constructors) are built over arbitrary or corrupted words (random, zeros, ones, corrupted valid streams, and words whose low or high PRECISION bits sit on or next to a boundary between two symbols of the model they will meet) and decode with arbitrary well-formed models, with emphasis on lookup tables and lazily quantised models; oracles: no panic, no abort (worker child process on the hardened build), every symbol inside the support of the model it was decoded with, ANS never errs, range only InvalidData, chain only OutOfCompressedData, backend errors only where a read fault was injected; decoding continues after an error; no decode may hang (quantized models over narrow signed/unsigned symbol types whose support touches the ends of the type are part of the zoo).",
         "A run that exceeds the wall-clock limit of its worker is localised, re-executed alone in a fresh process, and reported only if it exceeds the limit again (class C10/process-died, status timeout); wall-clock alone never decides a verdict. Supports come from the model specs.", "DESIGN 3 C10"),
 "C11": ("exploration", "deterministic simulation with fault injection: arbitrary words appended after / stored before the sealed message; interval-containment oracle from the unbounded-precision reference at every symbol boundary",
         "Store appends all-ones / all-zero / random words / the same message again after the sealed words, or the encoder starts on a pre-filled sink; the consumer must decode the original symbols; in addition, at every symbol boundary (each is a sealing point) the R-RANGE reference checks arithmetically that the all-ones and all-zeros continuations of the sealed words stay inside [low, low+range). Adversarial (cum,prob) synthesis drives the encoder into the measure-small region (range barely above its minimum, lower just above a word boundary).",
         "Trusted base: R-RANGE (big-integer low, ripple carry).", "DESIGN 3 C11"),
 "C04": ("exploration", "deterministic simulation: bits-back histories on arbitrary words against the R-RANS reference",
         "Arbitrary word sequences (incl. zero / all-ones / trailing zero words, length 0) loaded as raw binary, decode k symbols with arbitrary models (any precision sequence), reloads in between, encode back in reverse; oracles: num_valid_bits exact, decode never errs, every decoded symbol and every intermediate state equals the textbook rANS reference, both raw-binary accessors return the original words and agree with each other; foreign decoders over the raw-binary payload (from_binary_slice, from_reversed_binary, from_reversed_binary_iter) decode what the coder itself decodes.",
         "Trusted base: R-RANS reference (validated against the real coder on the fault-free tree and against published vectors), TableModel.", "DESIGN 3 C04"),
 "C05": ("exploration", "deterministic simulation of representation (version) skew between producer, twin producer and consumer of one entropy model",
         "Claimed in its observable form: per run one library-built model (uniform, categorical fast/perfect from f32/f64, fixed-point, leakily quantized Gaussian/Laplace/Cauchy/Binomial) is given to three parties in independently drawn representations (owner, view, lazy, to_generic_encoder_model, to_generic_decoder_model, to_generic_lookup_decoder_model, to_lookup_decoder_model, rebuilt from its own symbol_table, non-contiguous with identity relabelling, lookup and non-contiguous (lookup) models built directly with their own same-named constructors, lookup models converted back with as_/into_contiguous_categorical and into_non_contiguous_categorical); the two producers' coder states must be identical after every symbol and the consumer must recover the symbols, on ANS and range coders; sweep messages visit every symbol of the support. The pointwise table equality of the property's first sentence is only sampled through transmitted symbols.",
         "Weakest fit of this technique (no fault or schedule; configuration skew only) - stated in DESIGN 3/4. Representations that exist for a model must be constructible (a constructor abort is reported).", "DESIGN 3 C05"),
 "C06": ("exploration", "deterministic simulation with refinement check against independent reference models (R-RANS, R-RANGE) at every step and export point",
         "Along every generated history the coder's head and bulk equal the textbook streaming-rANS reference after every operation, and every export equals the reference serialisation; range-coder half: sealed words equal the unbounded-precision carry-propagating reference under the documented sealing rule; plus the byte-exact vectors printed in the project's documentation.",
         "Trusted base: the two reference models (written from the published formulations: explicit L/b and while-renormalisation; big-integer low with ripple carry, no situation/held-back words).", "DESIGN 3 C06"),
 "C07": ("exploration", "deterministic simulation: snapshots at every symbol boundary, seeded seek orders over owned/borrowed/consuming/reversed backends, out-of-range seek injection",
         "Snapshots (Pos::pos) taken between symbols; seekable decoders of each backend kind seek in random order with repetition and must yield exactly the symbols beyond the snapshot; positions beyond the data must be refused.",
         "Trusted base: R-STACK bookkeeping that decides which snapshots are still meaningful (only snapshots whose data below is untouched are used).", "DESIGN 3 C07"),
 "C08": ("exploration", "deterministic simulation with twin runs (same history with and without inspections)",
         "Inspections (get_compressed, get_binary, iter_compressed, temporary decoders, clone, size queries) inserted at seeded points; each view must equal clone().into_compressed() taken at that moment, must leave state()/bulk() untouched, and the whole run must produce the same decoded symbols and final words as the twin without inspections.",
         "Trusted base: executor; equality is on public observables only.", "DESIGN 3 C08"),
 "C09": ("fault_enumeration", "deterministic simulation with fault injection: out-of-support symbols (incl. aliasing values) and backend write failures at seeded points of encode histories",
         "At EVERY encode position of every generated history (ANS, range and chain coders), on clones of the coder: a fixed catalogue of out-of-support symbols for the model about to be used (support min-1, max+1, i32::MIN/MAX, s +/- 2^8, s + 2^16, s + 2^32, s + 2^PRECISION, s + 2^ProbabilityBits) must return ImpossibleSymbol and leave the coder bit-identical; for the ANS coder additionally the very next backend write fails (Store) or the sink has no room (bounded cursor and reversed bounded cursor; an encode that has to write a word must not report success): the coder must be unchanged and the symbols encoded before must still decode. On top of that, seeded BadSym / write-fault / capacity operations inside the histories themselves, Huffman out-of-alphabet symbols (incl. top-bit-set values) on the bit coders, and continuation of the history after each fault.",
         "Enumeration is over (history position) x (fault catalogue) for sampled histories; the histories themselves are sampled. Store is a simulator stub behind the public WriteWords/ReadWords traits.", "DESIGN 3 C09"),
 "C12": ("exploration", "deterministic simulation: invariant monitor on encode-only runs with a write-counting view of the backend",
         "After every encode of an encode-only history from the empty coder: bits <= sum(info)+sum(eps)+(S+2W) with the analytically derived eps, words <= n + const, at most one backend write per encode_symbol. Long runs (up to 2000 symbols; one run in 40 / 10 (quick / thorough) has 20 000-50 000 symbols, with the O(n) export evaluated at every 37th symbol and at the end) and a greedy worst-case workload so that a per-symbol leak overwhelms the constant; restart through clear() counts as a new empty coder.",
         "Float summation slack 1e-6*n+1e-6 bits; information content computed from the model's own fixed-point probabilities.", "DESIGN 3 C12"),
 "C13": ("exploration", "deterministic simulation with fault injection: decode / export / three re-import ways / re-encode histories with precision schedules on arbitrary data; truncated remainders; error-before-change via pre-call clones",
         "ChainCoder over every (Word,State) of the menu, from_binary and from_compressed, arbitrary data words, precision-change schedules (change_precision between symbols, undone in reverse), the three documented ways of re-importing remainders (suffix only, prefix++suffix, live coder); oracles: prefix ++ recovered parts equal the original words exactly, no leftover remainders, OutOfCompressedData / OutOfRemainders are reported before any state change (coder equals its pre-call clone), truncated remainders never yield wrong data, constructors refuse only when the reference says the data is too short.",
         "Trusted base: R-CHAIN head-initialisation rule; harness models.", "DESIGN 3 C13"),
 "C14": ("exploration", "deterministic simulation with fault injection: twin consumers over the same data with bit flips confined to one chunk (by R-CHAIN bit provenance) or one model replaced",
         "Symbol i must be exactly what model i assigns to the i-th PRECISION-bit chunk as extracted by the independent bit-deque reference R-CHAIN; flipping bits inside chunk j or replacing model j (in a fresh pass, or on the live coder: checkpoint pos(), decode, seek() back, decode with the replacement) may change only symbol j and never whether or when OutOfCompressedData occurs.",
         "Fixed PRECISION per run (the property speaks about PRECISION-bit chunks); R-CHAIN is an explicit bit-deque formulation of the consumption order.", "DESIGN 3 C14"),
 "C16": ("exploration", "deterministic simulation: seeded write/read/encode/decode/export/re-import/inspection histories on bit-level coders against the R-BITS reference (Vec<bool>)",
         "StackCoder and QueueEncoder/QueueDecoder over five word types and three backends, with Huffman (integer and float weights) and Exp-Golomb (u8..u64, symbols incl. 0, 2^k-1, 2^k, MAX-1, MAX) codebooks, pre-filled queue sinks; oracles: len()/is_empty() exact at every step, pops return pushes in reverse, queue reads in order followed only by zero padding, decode_symbol equals the same codebook run over R-BITS, export + re-import preserves len and content at every fill level of the last word, maybe_exhausted after the last bit; batch decodes through the decode_iid_symbols iterator (exact length, same items as single decodes).",
         "Codeword bits are obtained from the codebooks themselves (their correctness is C15, not decided here); R-BITS is a Vec<bool>.", "DESIGN 3 C16"),
 "C17": ("exploration", "deterministic simulation with fault injection (full sinks, out-of-range seeks, read/write errors) of the backend seam against the R-BACKEND reference",
         "Histories over write, extend_from_iter, stack reads, queue reads, remaining, space_left/is_full, maybe_exhausted/maybe_full, pos/seek (back to recorded and to arbitrary incl. out-of-range positions), in-place reversal (both directions), views, mutable views (as_mut_view and cursors over &mut [W] from new_at_pos_mut / new_at_write_end_mut), is_exhausted, cloned on Vec, SmallVec, Cursor<Vec>, Cursor<Box<[_]>>, Reverse<Cursor<..>>, FallibleIteratorReadWords with error items and over non-fused iterators (which the adapter must fuse), callback writers with failing callbacks; every result is predicted by a Vec+position model; temporal clauses (no read succeeds after end-of-data; maybe_exhausted() == false promises that the next read is not end-of-data - maybe_full() promises nothing by its documentation and is not asserted).",
         "Model positions are kept in the un-reversed orientation; reversal must be observationally a no-op for reads and writes.", "DESIGN 3 C17"),
 "C20": ("exploration", "deterministic simulation on a hardened build (std unsafe-precondition checks + overflow checks compiled into the library's generic code) in worker child processes, plus the same worker under Miri in the thorough tier; fault kinds: buffers shrunk through buf_mut(), poisoned float parameters, misbehaving user Distribution, out-of-range quantiles",
         "Runs every explorer (ans, range, bits, backend, chain, skew, garbage) with its own workload bias plus the poison world (Cursor::buf_mut shrink/replace then stack reads / reversed writes / ANS coding over the cursor; NaN/inf/negative/denormal/huge float tables and normalisations into every float constructor followed by use of the model; a Distribution whose CDF is NaN / decreasing / constant / out of range at one call; quantile_function with quantile >= 2^P; valid-but-extreme float tables; malformed fixed-point tables and mismatched symbol/probability counts; coders assembled with the safe from_raw_parts constructors from hostile parts - held-back counters up to usize::MAX, intervals astride the wrap point, arbitrary points and head states). Verdict rule: a UB-check abort, fatal signal or Miri UB report is always a violation; an overflow panic is a violation for in-contract operations; ordinary panics and Err values are the allowed failure form.",
         "Scope is the generated programs, as the property's quantifier says. Miri (thorough tier, 640 runs) cannot cross FFI and is slow; AddressSanitizer is not used (the UB-check build and Miri are strictly more informative for this crate, see DESIGN 7).", "DESIGN 3 C20"),
 "C18": ("exploration", "deterministic simulation: query-vs-export monitor at every step",
         "First sentence (coders), by simulation: num_words/num_bits/num_valid_bits/len/is_empty of ANS coder, range encoder and bit-level coders compared after every operation of a seeded history with what exporting at that moment returns; from_binary payload size exact; decoders that consumed exactly the message report maybe_exhausted, decoders with whole words left report false (ANS, range over exact backends, bit queue). Second sentence (model diagnostics): entropy, cross entropy and KL in both directions, floating-point table and floating_point_probability of sampled uniform / categorical / quantized models at six (Probability, PRECISION) combinations incl. full precision, against the textbook definitions on the exact fixed-point probabilities (relative tolerance 1e-9; infinities must agree exactly).",
         "The second sentence is a pure function of a model: that part of the check is plain seeded input sampling riding on the model zoo, not simulation (no history, schedule or fault exists there); it was added because seeded change C18-B lives in that half. See DESIGN section 4.", "DESIGN 3 C18"),
}

PENDING = {}  # filled below
NA = {
 "C03": "pure function of constructor arguments (validity/invertibility of a model table): no state, history, schedule, second party or fault for a simulator to drive; see DESIGN section 4",
 "C15": "pure function of a weight vector (prefix-freeness, Kraft equality, optimality, tie-breaking of Huffman codebooks); no history or fault dimension; see DESIGN section 4",
 "C19": "pure function of constructor input (accept => valid, else fail cleanly); the only fault-injection aspect (garbage parameters must not cause UB) is handled under C20; see DESIGN section 4",
}
for pid in []:
    if pid not in CLAIMED:
        PENDING[pid] = "check under construction in this round (design in DESIGN.md section 3); not claimed until its explorer is committed"

checks = []
for pid,(level,tech,text,note,ref) in sorted(CLAIMED.items()):
    checks.append({
        "property_id": pid,
        "quick_cmd": f"./check {pid} quick",
        "thorough_cmd": f"./check {pid} thorough",
        "evidence_file": f"/verif/evidence/{pid}.json",
        "replay_cmd_template": "./sim/target/release/simcheck replay {path}",
        "engine": "simcheck",
        "level_claimed": {"category": level, "text": text, "design_ref": ref},
        "level_note": note,
        "technique": tech,
    })
m = {
 "version": 1,
 "setup_cmd": "cd /verif/sim && CARGO_NET_OFFLINE=true cargo build --release --offline",
 "hooks": {
   "guard": "constriction_verif",
   "enable": "no hooks are needed: every seam is a public trait (ReadWords/WriteWords/Pos/Seek, EncoderModel/DecoderModel, Distribution/Inverse) or public constructor; the guard name is reserved (RUSTFLAGS=--cfg constriction_verif) and unused",
   "baseline_off_cmd": "cd /repo && cargo test --workspace --no-fail-fast --offline",
   "source_commits": [],
   "add_only": True,
 },
 "engines": [{
   "name": "simcheck",
   "path": "/verif/sim",
   "serves_properties": sorted(CLAIMED.keys()),
   "kind_free_text": "deterministic simulator: VERIF_SEED -> explicit trace (configuration, models, operations, fault placements) -> deterministic executor against the real library (hardened build) with executable reference models; worker child processes; delta-debugging minimiser; replay files are explicit traces",
 }],
 "checks": checks,
 "not_applicable": [{"property_id": k, "reason": v} for k,v in sorted({**NA, **PENDING}.items())],
 "notes": "Exit codes: 0 held, 1 VIOLATION, 2 harness error. Known findings: /verif/known_findings.json. See DESIGN.md.",
}
json.dump(m, open("/verif/MANIFEST.json","w"), indent=1)
print("claimed:", sorted(CLAIMED.keys()))
