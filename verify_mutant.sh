#!/bin/bash
# usage: verify_mutant.sh <prop-id> <A|B>   (uses scratch worktree /tmp/mut-<id>; never touches /repo)
ID="$1"; X="$2"; WT=/tmp/mut-$ID; OUT=/tmp/mut-out/$ID/$X
x=$(echo "$X" | tr 'A-Z' 'a-z')
cd "$WT" || exit 2
git checkout -q -- . ; git clean -fdq tests
export CARGO_NET_OFFLINE=true
cp "$OUT/demo.rs" tests/demo_$x.rs
# 1. demo passes without the change
cargo test --offline --test demo_$x >"$OUT/v_clean.log" 2>&1; clean_rc=$?
# 2. demo fails with the change
git apply "$OUT/patch.diff" || { echo "{\"apply\": false}" > "$OUT/verify.json"; exit 1; }
cargo test --offline --test demo_$x >"$OUT/v_mut.log" 2>&1; mut_rc=$?
rm tests/demo_$x.rs
# 3. the existing suite passes with the change
cargo test --workspace --no-fail-fast --offline >"$OUT/v_suite.log" 2>&1; suite_rc=$?
git checkout -q -- . ; git clean -fdq tests
echo "{\"demo_passes_without_change\": $([ $clean_rc = 0 ] && echo true || echo false), \"demo_fails_with_change\": $([ $mut_rc != 0 ] && echo true || echo false), \"suite_passes_with_change\": $([ $suite_rc = 0 ] && echo true || echo false)}" > "$OUT/verify.json"
cat "$OUT/verify.json"
