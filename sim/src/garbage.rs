//! World `garbage`: consumers of all three stream coders fed with arbitrary / corrupted words
//! (DESIGN 3: C10).  Faults: F-GARBAGE, F-TRUNC, F-FLIP, F-APPEND, F-WRONGMODEL, F-RERR.

use constriction::backends::{Cursor, FallibleIteratorReadWords};
use constriction::stream::queue::{RangeDecoder, RangeEncoder};
use constriction::stream::stack::AnsCoder;
use constriction::UnwrapInfallible;
use serde::{Deserialize, Serialize};

use crate::ans::pick_symbol;
use crate::chain::{ChainAnyT, ChainWord};
use crate::common::*;
use crate::dynops::{menu_for_word, DecRes, WordOps};
use crate::model::{build_caught, gen_spec, Built, ModelSpec, Repr};
use crate::rng::Rng;
use crate::skew::reprs_for;

#[derive(Clone, Copy, Debug, Serialize, Deserialize, PartialEq, Eq, Hash)]
pub enum CoderKind {
    AnsCompressed,
    AnsBinary,
    Range,
    ChainBinary,
    ChainCompressed,
}

#[derive(Clone, Copy, Debug, Serialize, Deserialize, PartialEq, Eq, Hash)]
pub enum Src {
    Vec,
    Slice,
    /// fallible iterator backend; read number `err_at` (if any) fails
    Iter,
}

#[derive(Clone, Debug, Serialize, Deserialize, PartialEq)]
pub struct GarbageTrace {
    pub cfg: usize,
    pub coder: CoderKind,
    pub src: Src,
    pub err_at: Option<usize>,
    pub data: Vec<u64>,
    /// how the data came about (informational)
    pub origin: String,
    pub p0: u8,
    pub models: Vec<(ModelSpec, Repr)>,
    pub decodes: Vec<usize>,
    /// chain coder only: `change_precision` to `.1` before decode number `.0`
    #[serde(default)]
    pub changes: Vec<(usize, u8)>,
    /// range decoder only: build the decoder from raw parts - (lower, range, point) as (hi, lo)
    /// pairs - over the data, i.e. from a stored snapshot that may be corrupted as well
    #[serde(default)]
    pub raw_state: Option<((u64, u64), (u64, u64), (u64, u64))>,
}

macro_rules! viol {
    ($ctx:expr, $tag:expr, $($fmt:tt)*) => {
        if $ctx.on("C10") {
            return Err(Violation::new("C10", $tag, $ctx.op, format!($($fmt)*)));
        } else {
            return Ok(());
        }
    };
}

pub fn exec(t: &GarbageTrace, ctx: &mut Ctx) -> Result<(), Violation> {
    crate::for_cfg!(t.cfg, |C| exec_cfg::<C>(t, ctx))
}

fn exec_cfg<C: Ws>(t: &GarbageTrace, ctx: &mut Ctx) -> Result<(), Violation> {
    let built: Vec<Option<Built>> = t
        .models
        .iter()
        .map(|(s, r)| if (s.pb as u32) <= C::WB && reprs_for(s).1.contains(r) { build_caught(s, *r) } else { None })
        .collect();
    let data: Vec<C::W> = t.data.iter().map(|&w| w_from(w)).collect();
    ctx.stats.hit(&format!("fault-data-{}", t.origin));
    ctx.stats.hit(&format!("coder-{:?}", t.coder));
    ctx.stats.state(hash_mix(hash_mix(t.cfg as u64, t.coder as u64), hash_mix(crate::rng::hash_str(&t.origin), t.data.len().min(12) as u64)));

    // decode loop shared by all decoders; `allowed` = the one documented frontend error
    macro_rules! decode_all {
        ($d:expr, $allowed:expr, $what:expr, $fixed_p:expr) => {{
            let mut d = $d;
            let fixed_p: Option<u8> = $fixed_p;
            // results already obtained through the batch iterator `decode_iid_symbols`
            let mut ahead: std::collections::VecDeque<DecRes> = Default::default();
            for (i, mi) in t.decodes.iter().enumerate() {
                ctx.op = i;
                let Some(Some(b)) = built.get(*mi) else { ctx.stats.hit("skipped-op"); ahead.clear(); continue };
                if !b.can_decode() { ctx.stats.hit("skipped-op"); ahead.clear(); continue }
                if let Some(p) = fixed_p { if b.p != p { ctx.stats.hit("skipped-op"); continue } }
                if ahead.is_empty() && i % 3 == 1 {
                    // a run of decodes with one and the same model: through the batch iterator,
                    // drained past errors (it must end after exactly that many items)
                    let mut r = 1;
                    while r < 5 && i + r < t.decodes.len() && t.decodes[i + r] == *mi { r += 1; }
                    if r >= 2 {
                        let ms: Vec<&Built> = (0..r).map(|_| b).collect();
                        ctx.stats.hit("op-dec-batch-iid");
                        ahead = <C::W as WordOps>::dec_batch(&mut d, crate::dynops::DecForm::Iid, &ms, None).into();
                        if ahead.len() != r {
                            viol!(ctx, "batch-iterator-shape", "{}: decode_iid_symbols({}) -> {:?}", $what, r, ahead);
                        }
                    }
                }
                let r = match ahead.pop_front() {
                    Some(r) => r,
                    None => <C::W as WordOps>::dec(&mut d, b),
                };
                ctx.stats.hit("op-dec");
                match r {
                    DecRes::Ok(sym) => {
                        if !b.in_support(sym) {
                            viol!(ctx, "decoded-symbol-outside-support", "{}: symbol {} from model {:?}", $what, sym, t.models[*mi]);
                        }
                    }
                    DecRes::Frontend(e) => {
                        ctx.stats.hit(&format!("error-{}", e));
                        let allowed: Option<&str> = $allowed;
                        if allowed != Some(e.as_str()) {
                            viol!(ctx, "undocumented-decode-error", "{}: {:?}", $what, e);
                        }
                    }
                    DecRes::Backend(e) => {
                        ctx.stats.hit("fault-read-error-fired");
                        if t.src != Src::Iter || t.err_at.is_none() {
                            viol!(ctx, "backend-error-without-fault", "{}: {:?}", $what, e);
                        }
                    }
                    DecRes::IterErr(_) => unreachable!(),
                }
            }
        }};
    }
    let iter_items = |rev: bool| -> Vec<Result<C::W, ()>> {
        let mut v: Vec<C::W> = data.clone();
        if rev { v.reverse(); }
        let mut out: Vec<Result<C::W, ()>> = Vec::new();
        for (i, w) in v.into_iter().enumerate() {
            if Some(i) == t.err_at { out.push(Err(())); }
            out.push(Ok(w));
        }
        out
    };
    match t.coder {
        CoderKind::AnsCompressed | CoderKind::AnsBinary => {
            let binary = t.coder == CoderKind::AnsBinary;
            match t.src {
                Src::Vec => {
                    let d = if binary { Some(AnsCoder::<C::W, C::S, _>::from_binary(data.clone()).unwrap_infallible()) } else { AnsCoder::<C::W, C::S, _>::from_compressed(data.clone()).ok() };
                    match d { Some(d) => decode_all!(d, None, "AnsCoder<Vec>", None), None => ctx.stats.hit("constructor-refused") }
                }
                Src::Slice => {
                    let d = if binary { Some(AnsCoder::<C::W, C::S, _>::from_binary_slice(&data)) } else { AnsCoder::<C::W, C::S, _>::from_compressed_slice(&data).ok() };
                    match d { Some(d) => decode_all!(d, None, "AnsCoder<Cursor<&[W]>>", None), None => ctx.stats.hit("constructor-refused") }
                }
                Src::Iter => {
                    let items = iter_items(true);
                    let d = if binary { AnsCoder::<C::W, C::S, _>::from_reversed_binary_iter(items.into_iter()).ok() } else { AnsCoder::<C::W, C::S, _>::from_reversed_compressed_iter(items.into_iter()).ok() };
                    match d { Some(d) => decode_all!(d, None, "AnsCoder<iterator>", None), None => ctx.stats.hit("constructor-refused") }
                }
            }
        }
        CoderKind::Range if t.raw_state.is_some() => {
            use constriction::stream::queue::RangeCoderState;
            let (lo, ra, pt) = t.raw_state.expect("checked");
            let pair = |x: (u64, u64)| -> u128 { ((x.0 as u128) << 64) | x.1 as u128 };
            ctx.stats.hit("fault-corrupted-snapshot");
            // a snapshot is only usable if the library's own validators accept it
            match RangeCoderState::<C::W, C::S>::new(s_from(pair(lo)), s_from(pair(ra))) {
                Ok(state) => match RangeDecoder::<C::W, C::S, _>::from_raw_parts(Cursor::new_at_write_beginning(data.clone()), state, s_from(pair(pt))) {
                    Ok(d) => decode_all!(d, Some("InvalidData"), "RangeDecoder::from_raw_parts", None),
                    Err(_) => ctx.stats.hit("constructor-refused"),
                },
                Err(()) => ctx.stats.hit("constructor-refused"),
            }
        }
        CoderKind::Range => match t.src {
            Src::Vec => {
                let d = RangeDecoder::<C::W, C::S, _>::from_compressed(data.clone()).unwrap_infallible();
                decode_all!(d, Some("InvalidData"), "RangeDecoder<Cursor<Vec>>", None);
            }
            Src::Slice => {
                let d = RangeDecoder::<C::W, C::S, _>::with_backend(Cursor::new_at_write_beginning(&data[..])).unwrap_infallible();
                decode_all!(d, Some("InvalidData"), "RangeDecoder<Cursor<&[W]>>", None);
            }
            Src::Iter => {
                let items = iter_items(false);
                match RangeDecoder::<C::W, C::S, _>::with_backend(FallibleIteratorReadWords::new(items.into_iter())) {
                    Ok(d) => decode_all!(d, Some("InvalidData"), "RangeDecoder<iterator>", None),
                    Err(()) => ctx.stats.hit("constructor-refused"),
                }
            }
        },
        CoderKind::ChainBinary | CoderKind::ChainCompressed => {
            type A<C> = <<C as Ws>::W as ChainWord>::Any<<C as Ws>::S>;
            if !<C::W as ChainWord>::PRECISIONS.contains(&t.p0) {
                return Ok(());
            }
            match A::<C>::from_data(t.p0, t.coder == CoderKind::ChainBinary, data.clone()) {
                Some(Ok(mut c)) => {
                    for (i, mi) in t.decodes.iter().enumerate() {
                        ctx.op = i;
                        if let Some((_, np)) = t.changes.iter().find(|(at, _)| *at == i) {
                            if *np != c.precision() && <C::W as ChainWord>::PRECISIONS.contains(np) {
                                ctx.stats.hit("op-change-precision");
                                match c.change(*np) {
                                    Some(Ok(c2)) => c = c2,
                                    // OutOfRemainders is the documented error of a decrease; the coder is consumed
                                    Some(Err(e)) => {
                                        if !e.contains("OutOfRemainders") {
                                            viol!(ctx, "undocumented-decode-error", "ChainCoder::change_precision: {}", e);
                                        }
                                        return Ok(());
                                    }
                                    None => return Ok(()),
                                }
                            }
                        }
                        let Some(Some(b)) = built.get(*mi) else { ctx.stats.hit("skipped-op"); continue };
                        if !b.can_decode() || b.p != c.precision() { ctx.stats.hit("skipped-op"); continue }
                        ctx.stats.hit("op-dec");
                        match c.dec(b) {
                            DecRes::Ok(sym) => {
                                if !b.in_support(sym) {
                                    viol!(ctx, "decoded-symbol-outside-support", "ChainCoder: symbol {} from model {:?}", sym, t.models[*mi]);
                                }
                            }
                            DecRes::Frontend(e) if e == "OutOfCompressedData" => ctx.stats.hit("error-OutOfCompressedData"),
                            other => viol!(ctx, "undocumented-decode-error", "ChainCoder: {:?}", other),
                        }
                    }
                }
                _ => ctx.stats.hit("constructor-refused"),
            }
        }
    }
    Ok(())
}

// ---------------------------------------------------------------------------------------

pub fn generate(seed: u64, _prop: &str, _thorough: bool) -> GarbageTrace {
    let mut root = Rng::new(seed);
    let mut rng = root.fork("workload");
    let mut bias = root.fork("bias");
    let mut frng = root.fork("faults");
    let cfg = if bias.chance(1, 2) { bias.usize(4) } else { bias.usize(CONFIGS.len()) };
    let (wb, sb) = CONFIGS[cfg];
    let coder = *bias.pick(&[CoderKind::AnsCompressed, CoderKind::AnsBinary, CoderKind::Range, CoderKind::Range, CoderKind::ChainBinary, CoderKind::ChainCompressed]);
    let mut menu = menu_for_word(wb);
    if bias.chance(1, 3) {
        // swarm: a run at the highest precision this word size offers (where float rounding
        // in lazily quantised and fast-constructed models has the least slack)
        let top = menu.iter().filter(|(pb, _)| *pb as u32 == wb.min(32)).map(|(_, p)| *p).max();
        if let Some(top) = top {
            let f: Vec<(u8, u8)> = menu.iter().cloned().filter(|(pb, p)| *pb as u32 == wb.min(32) && *p == top).collect();
            if !f.is_empty() { menu = f; }
        }
    }
    let chain = matches!(coder, CoderKind::ChainBinary | CoderKind::ChainCompressed);
    let p0 = rng.pick(&menu).1;
    let n_models = 1 + rng.usize(4);
    let mut models: Vec<(ModelSpec, Repr)> = Vec::new();
    let mut plain: Vec<Built> = Vec::new();
    for _ in 0..n_models {
        let (pb, p) = if chain { let c: Vec<(u8, u8)> = menu.iter().cloned().filter(|(_, p)| *p == p0).collect(); *rng.pick(&c) } else { *rng.pick(&menu) };
        let max_syms = if rng.chance(1, 6) { 300 } else { 2 + rng.usize(40) };
        // emphasis on library models, lookup tables and lazily quantised models
        let spec = gen_spec(&mut rng, pb, p, max_syms, 75);
        let decs = reprs_for(&spec).1;
        let repr = if decs.contains(&Repr::Lazy) && bias.chance(1, 2) {
            // the property names lazily quantised models explicitly
            Repr::Lazy
        } else if bias.chance(2, 3) {
            let pref: Vec<Repr> = decs.iter().cloned().filter(|r| matches!(r, Repr::Lookup | Repr::GenLookup | Repr::Lazy | Repr::GenDec | Repr::LookupCtor | Repr::NonContigLookupCtor | Repr::NonContigLookupBack)).collect();
            if pref.is_empty() { *rng.pick(&decs) } else { *rng.pick(&pref) }
        } else {
            *rng.pick(&decs)
        };
        plain.push(build_caught(&spec, Repr::Plain).expect("buildable"));
        models.push((spec, repr));
    }
    // chain coder: sometimes a second precision with its own models and a change schedule
    let mut p_alt: Option<u8> = None;
    if chain && bias.chance(1, 3) {
        let alts: Vec<u8> = menu.iter().map(|(_, p)| *p).filter(|p| *p != p0).collect();
        if !alts.is_empty() {
            let pa = *rng.pick(&alts);
            let c: Vec<(u8, u8)> = menu.iter().cloned().filter(|(_, p)| *p == pa).collect();
            for _ in 0..1 + rng.usize(2) {
                let (pb, p) = *rng.pick(&c);
                let max_syms = 2 + rng.usize(30);
                let spec = gen_spec(&mut rng, pb, p, max_syms, 50);
                plain.push(build_caught(&spec, Repr::Plain).expect("buildable"));
                models.push((spec, Repr::Plain));
            }
            p_alt = Some(pa);
        }
    }
    let n_models = models.len();
    let n_dec = rng.len(10, 40);
    let mut decodes: Vec<usize> = (0..n_dec).map(|_| rng.usize(n_models)).collect();
    let word = |rng: &mut Rng| rng.word(wb);
    let (data, origin): (Vec<u64>, &str) = match frng.below(12) {
        10 | 11 => {
            // words whose low or high P bits are a quantile on (or a few quanta next to) the
            // boundary between two symbols of one of the models: the decoders' quantiles are
            // cut out of the words at exactly these places
            let n = frng.len(6, 24);
            // mostly one model for the whole stream, and the consumer uses that model: every
            // word then meets the model whose boundary it sits on
            let star = if frng.chance(2, 3) { Some(frng.usize(n_models)) } else { None };
            if let Some(ms) = star {
                decodes = vec![ms; n + 2];
            }
            let words = (0..n).map(|_| {
                let m = star.unwrap_or_else(|| frng.usize(plain.len()));
                let b = &plain[m];
                let s = pick_symbol(&mut frng, b);
                let (cum, prob) = b.lcp64(s).expect("support symbol");
                let p = b.p as u32;
                let pm = mask64(p);
                let d = match frng.below(4) { 0 | 1 => 0, 2 => frng.below(4), _ => frng.below(400) };
                let q = match frng.below(4) {
                    0 | 1 => cum.wrapping_add(prob).wrapping_sub(1).wrapping_sub(d.min(prob - 1)),
                    2 => cum.wrapping_add(d.min(prob - 1)),
                    _ => cum.wrapping_add(prob),
                } & pm;
                let r = frng.next_u64();
                (if p >= wb { q } else if frng.chance(1, 2) { q | (r << p) } else { (q << (wb - p)) | (r & mask64(wb - p)) }) & mask64(wb)
            }).collect();
            (words, "boundary-quantiles")
        }
        0 => ((0..frng.len(6, 24)).map(|_| frng.next_u64() & mask64(wb)).collect(), "random"),
        1 => (vec![0; frng.len(4, 16)], "zeros"),
        2 => (vec![mask64(wb); frng.len(4, 16)], "ones"),
        3 => ((0..frng.len(6, 24)).map(|_| word(&mut frng)).collect(), "mixed"),
        _ => {
            // a valid stream, then corrupted
            let n = rng.len(8, 40);
            let msg: Vec<(i64, usize)> = (0..n).map(|_| { let m = rng.usize(n_models); (pick_symbol(&mut rng, &plain[m]), m) }).collect();
            let mut words: Vec<u64> = crate::for_cfg!(cfg, |C| {
                if matches!(coder, CoderKind::Range) {
                    let mut e = RangeEncoder::<<C as Ws>::W, <C as Ws>::S>::new();
                    for (s, m) in &msg { let _ = <<C as Ws>::W as WordOps>::enc(&mut e, &plain[*m], *s); }
                    e.into_compressed().unwrap_infallible().iter().map(|&w| w_to(w)).collect()
                } else {
                    let mut e = AnsCoder::<<C as Ws>::W, <C as Ws>::S>::new();
                    for (s, m) in msg.iter().rev() { let _ = <<C as Ws>::W as WordOps>::enc(&mut e, &plain[*m], *s); }
                    e.into_compressed().unwrap_infallible().iter().map(|&w| w_to(w)).collect()
                }
            });
            // the consumer first follows the producer's models ...
            decodes = msg.iter().map(|(_, m)| *m).collect();
            decodes.extend((0..rng.usize(6)).map(|_| rng.usize(n_models)));
            match frng.below(5) {
                0 => {
                    for _ in 0..1 + frng.usize(3) {
                        if !words.is_empty() { let i = frng.usize(words.len()); words[i] ^= 1u64 << frng.below(wb as u64); }
                    }
                    (words, "valid+flip")
                }
                1 => { let k = frng.usize(words.len() + 1); words.truncate(k); (words, "valid+truncated") }
                2 => { for _ in 0..1 + frng.usize(6) { words.push(word(&mut frng)); } (words, "valid+appended") }
                3 => { if !words.is_empty() { let k = frng.usize(words.len()); words.drain(0..k); } (words, "valid+head-cut") }
                _ => {
                    // ... or not: unrelated model sequence
                    decodes = (0..n_dec).map(|_| rng.usize(n_models)).collect();
                    (words, "valid+wrong-models")
                }
            }
        }
    };
    let src = *bias.pick(&[Src::Vec, Src::Vec, Src::Slice, Src::Iter]);
    let err_at = if src == Src::Iter && frng.chance(1, 2) { Some(frng.usize(data.len() + 1)) } else { None };
    let changes: Vec<(usize, u8)> = match p_alt {
        Some(pa) => { let mut v = Vec::new(); let mut cur = p0; for i in 0..decodes.len() { if rng.chance(1, 5) { cur = if cur == p0 { pa } else { p0 }; v.push((i, cur)); } } v }
        None => Vec::new(),
    };
    let raw_state = if coder == CoderKind::Range && frng.chance(1, 4) {
        let mask: u128 = if sb >= 128 { u128::MAX } else { (1u128 << sb) - 1 };
        let thr: u128 = 1u128 << (sb - wb);
        let any = |r: &mut Rng| -> u128 { (((r.next_u64() as u128) << 64) | r.next_u64() as u128) & mask };
        let range = match frng.below(6) {
            0 => thr,
            1 => thr - 1 - (frng.next_u64() as u128 % (thr / 2).max(1)),
            2 => thr + (frng.next_u64() as u128 % thr),
            3 => mask,
            4 => any(&mut frng) % thr,
            _ => any(&mut frng) | thr,
        } & mask;
        let lower = if frng.chance(1, 3) { 0 } else { any(&mut frng) };
        let point = if frng.chance(2, 3) { lower.wrapping_add(any(&mut frng) % range.max(1)) & mask } else { any(&mut frng) };
        let split = |x: u128| ((x >> 64) as u64, x as u64);
        Some((split(lower), split(range), split(point)))
    } else {
        None
    };
    GarbageTrace { cfg, coder, src, err_at, data, origin: origin.to_string(), p0, models, decodes, changes, raw_state }
}

fn mask64(bits: u32) -> u64 {
    if bits >= 64 { u64::MAX } else { (1u64 << bits) - 1 }
}
