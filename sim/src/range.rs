//! World `range`: producer (RangeEncoder over a sink) -> store -> consumer (RangeDecoder over a
//! source), with inspectors and seekers (DESIGN 3: C02 C06 C07 C08 C09 C11 C12 C18).

use std::cell::RefCell;
use std::rc::Rc;

use constriction::backends::{
    Cursor, FallibleCallbackWriteWords, FallibleIteratorReadWords, InfallibleCallbackWriteWords, Reverse,
};
use constriction::stream::queue::{RangeDecoder, RangeEncoder};
use constriction::stream::Code;
use constriction::{Pos, Seek, UnwrapInfallible};
use serde::{Deserialize, Serialize};
use smallvec::SmallVec;

use crate::ans::pick_symbol;
use crate::common::*;
use crate::dynops::{menu_for_word, DecRes, EncForm, EncRes, WordOps};
use crate::model::{build_caught, gen_spec, gen_table, Built, Kind, ModelSpec, Repr};
use crate::refs::RefRange;
use crate::rng::Rng;
use crate::store::{QStore, Store, StoreErr};

#[derive(Clone, Debug, Serialize, Deserialize, PartialEq)]
pub enum Sink {
    Vec,
    Small,
    /// `InfallibleCallbackWriteWords`
    Callback,
    /// `FallibleCallbackWriteWords` (never failing here)
    FallibleCallback,
    /// bounded `Cursor` over a Vec with enough room
    Cursor,
    /// simulator store
    Store,
}

#[derive(Clone, Copy, Debug, Serialize, Deserialize, PartialEq, Eq, Hash)]
pub enum Source {
    CursorVec,
    Slice,
    ForCompressed,
    FallibleIter,
    QStore,
    ReversedCursor,
    /// `encoder.decoder()` guard (Vec sink, no suffix)
    Guard,
    /// `encoder.into_decoder()` (Vec sink, no suffix)
    IntoDecoder,
}

#[derive(Clone, Debug, Serialize, Deserialize, PartialEq)]
pub enum Suffix {
    None,
    Ones(usize),
    Zeros(usize),
    Words(Vec<u64>),
    /// the same sealed message again (back-to-back storage)
    SameAgain,
}

#[derive(Clone, Copy, Debug, Serialize, Deserialize, PartialEq, Eq, Hash)]
pub enum RView {
    GetCompressed,
    Decoder,
    Queries,
    CloneDrop,
}

#[derive(Clone, Debug, Serialize, Deserialize, PartialEq)]
pub enum RangeOp {
    Enc { sym: i64, m: usize },
    EncBatch { form: EncForm, items: Vec<(i64, usize)>, fail_at: Option<usize> },
    Inspect { view: RView, n: usize },
    Snapshot,
    BadSym { m: usize, sym: i64 },
    /// take the encoder apart (`into_raw_parts`) and put it together again (`from_raw_parts`):
    /// suspending and resuming a half-finished encoder
    Reassemble,
    /// `clear()`: restart with an empty message on the same encoder (Vec sink, no prefix)
    Clear,
}

#[derive(Clone, Debug, Serialize, Deserialize, PartialEq)]
pub struct RangeTrace {
    pub cfg: usize,
    pub sink: Sink,
    /// words already in the sink when the encoder starts (F-PREFIX)
    pub prefix: Vec<u64>,
    pub models: Vec<ModelSpec>,
    pub ops: Vec<RangeOp>,
    pub source: Source,
    pub suffix: Suffix,
    /// (snapshot index, symbols to decode after seeking)
    pub seeks: Vec<(usize, usize)>,
    /// published vector: the sealed words must equal these (C06)
    #[serde(default)]
    pub expect: Option<Vec<u64>>,
    /// consumer: take the decoder apart (`into_raw_parts`) and reassemble it
    /// (`from_raw_parts`) before decoding the symbols at these indices
    #[serde(default)]
    pub reassemble_at: Vec<usize>,
    /// representation in which model i is handed to the coders (missing = the plain owner)
    #[serde(default)]
    pub reprs: Vec<Repr>,
}

type Cb<W> = Box<dyn FnMut(W)>;
type Fcb<W> = Box<dyn FnMut(W) -> Result<(), StoreErr>>;

enum Enc<C: Ws> {
    V(RangeEncoder<C::W, C::S, Vec<C::W>>),
    Sm(RangeEncoder<C::W, C::S, SmallVec<[C::W; 4]>>),
    Cb(RangeEncoder<C::W, C::S, InfallibleCallbackWriteWords<Cb<C::W>>>, Rc<RefCell<Vec<C::W>>>),
    Fcb(RangeEncoder<C::W, C::S, FallibleCallbackWriteWords<Fcb<C::W>>>, Rc<RefCell<Vec<C::W>>>),
    Cur(RangeEncoder<C::W, C::S, Cursor<C::W, Vec<C::W>>>),
    St(RangeEncoder<C::W, C::S, Store<C::W>>),
}

macro_rules! on_enc {
    ($c:expr, $x:ident => $e:expr) => {
        match $c {
            Enc::V($x) => $e,
            Enc::Sm($x) => $e,
            Enc::Cb($x, _) => $e,
            Enc::Fcb($x, _) => $e,
            Enc::Cur($x) => $e,
            Enc::St($x) => $e,
        }
    };
}

fn to_words<W: constriction::BitArray>(ws: &[W]) -> Vec<u64> {
    ws.iter().map(|&w| w_to(w)).collect()
}

impl<C: Ws> Enc<C> {
    fn new(sink: &Sink, prefix: &[u64], room: usize) -> Self {
        let pw: Vec<C::W> = prefix.iter().map(|&w| w_from(w)).collect();
        match sink {
            Sink::Vec => Enc::V(RangeEncoder::with_backend(pw)),
            Sink::Small => Enc::Sm(RangeEncoder::with_backend(SmallVec::from_vec(pw))),
            Sink::Callback => {
                let out = Rc::new(RefCell::new(pw));
                let o2 = out.clone();
                let cb: Cb<C::W> = Box::new(move |w| o2.borrow_mut().push(w));
                Enc::Cb(RangeEncoder::with_backend(InfallibleCallbackWriteWords::new(cb)), out)
            }
            Sink::FallibleCallback => {
                let out = Rc::new(RefCell::new(pw));
                let o2 = out.clone();
                let cb: Fcb<C::W> = Box::new(move |w| {
                    o2.borrow_mut().push(w);
                    Ok(())
                });
                Enc::Fcb(RangeEncoder::with_backend(FallibleCallbackWriteWords::new(cb)), out)
            }
            Sink::Cursor => {
                let len = pw.len();
                let mut buf = pw;
                buf.resize(len + room, C::W::default());
                Enc::Cur(RangeEncoder::with_backend(Cursor::new_at_pos(buf, len).expect("pos <= len")))
            }
            Sink::Store => Enc::St(RangeEncoder::with_backend(Store::new(pw))),
        }
    }
    fn enc(&mut self, m: &Built, sym: i64) -> EncRes {
        on_enc!(self, c => <C::W as WordOps>::enc(c, m, sym))
    }
    fn enc_batch(&mut self, form: EncForm, items: &[(i64, &Built)], fail_at: Option<usize>) -> EncRes {
        on_enc!(self, c => <C::W as WordOps>::enc_batch(c, form, items, fail_at))
    }
    /// (lower, range) through the public `state()`
    fn state(&self) -> (u128, u128) {
        let s = on_enc!(self, c => c.state());
        (s_to(s.lower()), s_to(constriction::NonZeroBitArray::get(s.range())))
    }
    /// words written to the sink so far (not counting held-back words)
    fn written(&self) -> Vec<u64> {
        match self {
            Enc::V(c) => to_words(c.bulk()),
            Enc::Sm(c) => to_words(c.bulk()),
            Enc::Cb(_, o) | Enc::Fcb(_, o) => to_words(&o.borrow()),
            Enc::Cur(c) => to_words(&c.bulk().buf()[..c.bulk().pos()]),
            Enc::St(c) => to_words(&c.bulk().data),
        }
    }
    fn written_len(&self) -> usize {
        match self {
            Enc::V(c) => c.bulk().len(),
            Enc::Sm(c) => c.bulk().len(),
            Enc::Cb(_, o) | Enc::Fcb(_, o) => o.borrow().len(),
            Enc::Cur(c) => c.bulk().pos(),
            Enc::St(c) => c.bulk().data.len(),
        }
    }
    fn clone_(&self) -> Option<Self> {
        Some(match self {
            Enc::V(c) => Enc::V(c.clone()),
            Enc::Sm(c) => Enc::Sm(c.clone()),
            Enc::Cur(c) => Enc::Cur(c.clone()),
            Enc::St(c) => Enc::St(c.clone()),
            _ => return None,
        })
    }
    /// sealed words including the prefix; consumes
    fn finish(self) -> Option<Vec<u64>> {
        Some(match self {
            // two public routes to the sealed words of a Vec-backed encoder: `into_compressed()`
            // and `Vec::from(encoder)`. Which one is taken is a function of the encoder's state
            // (so replay stays a pure function of the trace) and both are hit at every kind of
            // position.
            Enc::V(c) => {
                if c.bulk().len().wrapping_add(s_to(c.state().lower()) as usize) & 1 == 1 {
                    to_words(&Vec::<C::W>::from(c))
                } else {
                    to_words(&c.into_compressed().unwrap_infallible())
                }
            }
            Enc::Sm(c) => to_words(&c.into_compressed().unwrap_infallible()),
            Enc::Cb(c, o) => {
                drop(c.into_compressed().unwrap_infallible());
                let v = to_words(&o.borrow());
                v
            }
            Enc::Fcb(c, o) => {
                drop(c.into_compressed().ok()?);
                let v = to_words(&o.borrow());
                v
            }
            Enc::Cur(c) => {
                let cur = c.into_compressed().ok()?;
                let (buf, pos) = cur.into_buf_and_pos();
                to_words(&buf[..pos])
            }
            Enc::St(c) => to_words(&c.into_compressed().ok()?.data),
        })
    }
    /// `clone().into_compressed()`
    fn export(&self) -> Option<Vec<u64>> {
        self.clone_().and_then(|c| c.finish())
    }
    /// (situation rendered, for "no trace" comparisons)
    fn raw(&self) -> Option<String> {
        Some(match self {
            Enc::V(c) => format!("{:?}", c.clone().into_raw_parts()),
            Enc::Sm(c) => format!("{:?}", c.clone().into_raw_parts()),
            Enc::St(c) => format!("{:?}", { let (b, s, t) = c.clone().into_raw_parts(); (b.data, s, t) }),
            Enc::Cur(c) => format!("{:?}", { let (b, s, t) = c.clone().into_raw_parts(); (b.pos(), s, t) }),
            _ => return None,
        })
    }
    fn reassemble(self) -> Self {
        macro_rules! re {
            ($c:expr) => {{
                let (b, s, sit) = $c.into_raw_parts();
                RangeEncoder::from_raw_parts(b, s, sit)
            }};
        }
        match self {
            Enc::V(c) => Enc::V(re!(c)),
            Enc::Sm(c) => Enc::Sm(re!(c)),
            Enc::Cb(c, o) => Enc::Cb(re!(c), o),
            Enc::Fcb(c, o) => Enc::Fcb(re!(c), o),
            Enc::Cur(c) => Enc::Cur(re!(c)),
            Enc::St(c) => Enc::St(re!(c)),
        }
    }
    fn num_inverted(&self) -> Option<usize> {
        use constriction::stream::queue::EncoderSituation as Es;
        let sit = match self {
            Enc::V(c) => c.clone().into_raw_parts().2,
            Enc::Sm(c) => c.clone().into_raw_parts().2,
            Enc::St(c) => c.clone().into_raw_parts().2,
            Enc::Cur(c) => c.clone().into_raw_parts().2,
            _ => return None,
        };
        Some(match sit {
            Es::Normal => 0,
            Es::Inverted(n, _) => n.get(),
        })
    }
}

#[derive(Clone, Debug, Default, PartialEq)]
pub struct RunLog {
    pub sealed: Option<Vec<u64>>,
    pub decoded: Vec<i64>,
    pub completed: bool,
}

macro_rules! viol {
    ($ctx:expr, $prop:expr, $tag:expr, $($fmt:tt)*) => {
        return Err(Violation::new($prop, $tag, $ctx.op, format!($($fmt)*)))
    };
}

pub fn exec(t: &RangeTrace, ctx: &mut Ctx, skip_inspect: bool) -> Result<RunLog, Violation> {
    crate::for_cfg!(t.cfg, |C| exec_cfg::<C>(t, ctx, skip_inspect))
}

struct Snap {
    pos: usize,
    lower: u128,
    range: u128,
    /// number of symbols encoded before the snapshot
    at: usize,
    inverted: usize,
}

fn exec_cfg<C: Ws>(t: &RangeTrace, ctx: &mut Ctx, skip_inspect: bool) -> Result<RunLog, Violation> {
    let built: Vec<Option<Built>> = t
        .models
        .iter()
        .enumerate()
        .map(|(i, s)| if (s.pb as u32) <= C::WB { build_caught(s, t.reprs.get(i).cloned().unwrap_or(Repr::Plain)) } else { None })
        .collect();
    let model = |m: usize| -> Option<&Built> { built.get(m).and_then(|b| b.as_ref()) };
    let prefix: Vec<u64> = t.prefix.iter().map(|&w| w_to(w_from::<C::W>(w))).collect();
    let n_enc_ops: usize = t.ops.iter().map(|o| match o { RangeOp::Enc { .. } => 1, RangeOp::EncBatch { items, .. } => items.len(), _ => 0 }).sum();
    let mut enc = Enc::<C>::new(&t.sink, &prefix, n_enc_ops + (C::SB / C::WB) as usize + 4);
    let mut r = RefRange::new(C::WB, C::SB);
    let mut message: Vec<(i64, usize)> = Vec::new();
    let mut snaps: Vec<Snap> = Vec::new();
    let mut info = 0.0f64;
    let mut eps = 0.0f64;
    let mut log = RunLog::default();
    let mut r_valid = true;
    let mut last_written: Vec<u64> = prefix.clone();

    // per-step monitors
    macro_rules! monitors {
        () => {{
            // long messages (C12 only): every monitor below costs O(n), evaluate them at every
            // 37th symbol beyond 2000
            let thinned = message.len() > 2000 && message.len() % 37 != 0;
            if thinned {
            } else {
            if let Some(ni) = enc.num_inverted() {
                let st = enc.state();
                let h = hash_mix(hash_mix(ni.min(4) as u64, (128 - st.1.leading_zeros()) as u64), hash_mix(t.cfg as u64, (st.0 >> (C::SB - C::WB)) as u64 & 3));
                ctx.stats.state(h);
                if ni >= 1 { ctx.stats.hit("probe-inverted"); }
                if ni >= 3 { ctx.stats.hit("probe-inverted-3plus"); }
            }
            if ctx.any(&["C02", "C06"]) {
                // words handed to the sink are final: what was written earlier must be a prefix
                // of what is written now (a pending carry must be held back, not patched later -
                // callback sinks cannot take words back)
                let now = enc.written();
                if now.len() < last_written.len() || now[..last_written.len()] != last_written[..] {
                    viol!(ctx, ctx.prop, "range-written-words-changed", "words already handed to the sink changed: before {:x?} now {:x?}", last_written, now);
                }
                last_written = now;
            }
            if ctx.on("C18") {
                if let (Enc::V(c), Some(words)) = (&enc, enc.export()) {
                    if c.num_words() != words.len() {
                        viol!(ctx, "C18", "range-num-words", "num_words()={} but sealing now yields {} words", c.num_words(), words.len());
                    }
                    if c.num_bits() != words.len() * C::WB as usize {
                        viol!(ctx, "C18", "range-num-bits", "num_bits()={} for {} words", c.num_bits(), words.len());
                    }
                    if c.is_empty() != words.is_empty() {
                        viol!(ctx, "C18", "range-is-empty", "is_empty()={} but export has {} words", c.is_empty(), words.len());
                    }
                }
            }
            if ctx.on("C12") && prefix.is_empty() {
                if let Some(words) = enc.export() {
                    let n = message.len();
                    let bits = (words.len() * C::WB as usize) as f64;
                    let bound = info + eps + (C::SB + 2 * C::WB) as f64 + 1e-6 * n as f64 + 1e-6;
                    if bits > bound {
                        viol!(ctx, "C12", "range-bits-exceed-bound", "n={} bits={} info={:.4} eps={:.4} const={}", n, bits, info, eps, C::SB + 2 * C::WB);
                    }
                    if words.len() > n + (C::SB / C::WB) as usize {
                        viol!(ctx, "C12", "range-words-exceed-bound", "n={} words={}", n, words.len());
                    }
                    ctx.stats.hit("c12-bound-checks");
                }
            }
            if ctx.any(&["C06", "C11"]) && r_valid {
                // every symbol boundary is a sealing point
                if let Some(words) = enc.export() {
                    let msg = &words[prefix.len().min(words.len())..];
                    if ctx.on("C06") {
                        let want = r.sealed();
                        if msg != &want[..] {
                            viol!(ctx, "C06", "range-sealed-words-differ-from-reference", "after {} symbols: sealed={:x?} reference={:x?}", message.len(), msg, want);
                        }
                    }
                    if ctx.on("C11") {
                        let (z, o) = r.continuation_inside(msg);
                        ctx.stats.hit("c11-interval-checks");
                        if !z || !o {
                            viol!(ctx, "C11", "range-continuation-escapes-interval", "after {} symbols: sealed={:x?}: all-zeros inside={} all-ones inside={} (low={:x?} range={:#x})", message.len(), msg, z, o, r.low, r.range);
                        }
                    }
                }
            }
            }
        }};
    }

    for (i, op) in t.ops.iter().enumerate() {
        ctx.op = i;
        let enc_num_inv = if matches!(op, RangeOp::Clear) { enc.num_inverted() } else { None };
        match op {
            RangeOp::Enc { sym, m } => {
                let Some(b) = model(*m) else { ctx.stats.hit("skipped-op"); continue };
                let Some((cum, prob)) = (if b.can_encode() { b.lcp64(*sym) } else { None }) else { ctx.stats.hit("skipped-op"); continue };
                if ctx.on("C09") && message.len() <= 2000 {
                    // fault enumeration at this position, on clones: a catalogue of
                    // out-of-support symbols for the model about to be used
                    let lo = *b.support.iter().min().unwrap();
                    let hi = *b.support.iter().max().unwrap();
                    let s0 = b.support[(message.len() + *m) % b.support.len()];
                    for cand in [lo - 1, hi + 1, i64::from(i32::MAX), i64::from(i32::MIN), s0 + (1i64 << 8), s0 + (1i64 << 16), s0 + (1i64 << 32), s0 - (1i64 << 8), s0 + (1i64 << b.p.min(62)), s0 + (1i64 << b.pb.min(62))] {
                        if b.in_support(cand) { continue; }
                        let Some(mut c) = enc.clone_() else { break };
                        let raw = c.raw();
                        let res = c.enc(b, cand);
                        ctx.stats.hit("fault-badsym-enumerated");
                        if !res.is_impossible() {
                            viol!(ctx, "C09", "range-impossible-symbol-not-rejected", "sym={} model={:?} -> {:?} (enumerated at encode position {})", cand, t.models[*m], res, message.len());
                        }
                        if c.raw() != raw {
                            viol!(ctx, "C09", "range-changed-by-rejected-symbol", "sym={}: {:?} -> {:?}", cand, raw, c.raw());
                        }
                    }
                }
                let before = enc.written_len();
                let res = enc.enc(b, *sym);
                if res != EncRes::Ok {
                    if ctx.any(&["C02", "C09", "C06"]) {
                        viol!(ctx, ctx.prop, "range-in-support-symbol-rejected", "sym={} model={} -> {:?}", sym, m, res);
                    }
                    return Ok(log);
                }
                ctx.stats.hit("op-enc");
                let wrote = enc.written_len() - before;
                if wrote > 1 {
                    ctx.stats.hit("probe-carry-resolved-multiword");
                }
                if !r.encode(cum, prob, b.p as u32) {
                    r_valid = false;
                }
                info += b.p as f64 - (prob as f64).log2();
                let d = (C::SB - C::WB) as i32 - b.p as i32;
                eps += if d <= 0 { 1.0 } else { -(1.0 - (2.0f64).powi(-d)).log2() };
                message.push((*sym, *m));
            }
            RangeOp::EncBatch { form, items, fail_at } => {
                let mut resolved: Vec<(i64, &Built)> = Vec::new();
                let mut ok = true;
                for (s, m) in items {
                    match model(*m) {
                        Some(b) if b.can_encode() && b.lcp64(*s).is_some() => resolved.push((*s, b)),
                        _ => ok = false,
                    }
                }
                if let Some((_, f)) = resolved.first() {
                    ok &= resolved.iter().all(|(_, b)| b.pb == f.pb && b.p == f.p);
                }
                let form = match form {
                    EncForm::SymbolsRev => EncForm::Symbols,
                    EncForm::TryRev => EncForm::Try,
                    EncForm::IidRev => EncForm::Iid,
                    f => *f,
                };
                if form == EncForm::Iid {
                    ok &= items.iter().all(|(_, m)| *m == items[0].1);
                }
                if !ok {
                    ctx.stats.hit("skipped-op");
                    continue;
                }
                let fail_at = if form == EncForm::Try { fail_at.filter(|k| *k <= items.len()) } else { None };
                let n_ok = fail_at.unwrap_or(items.len());
                let twin = enc.clone_();
                let res = enc.enc_batch(form, &resolved, fail_at);
                ctx.stats.hit(&format!("op-enc-batch-{:?}", form));
                let expected = match fail_at { Some(k) => EncRes::IterErr(k as i64), None => EncRes::Ok };
                if res != expected {
                    if ctx.any(&["C02", "C06"]) {
                        viol!(ctx, ctx.prop, "range-batch-result", "form {:?}: got {:?} expected {:?}", form, res, expected);
                    }
                    return Ok(log);
                }
                if let Some(mut twin) = twin {
                    for (s, b) in resolved.iter().take(n_ok) {
                        let _ = twin.enc(b, *s);
                    }
                    if ctx.on("C02") && twin.raw() != enc.raw() {
                        viol!(ctx, "C02", "range-batch-differs-from-loop", "form {:?}", form);
                    }
                }
                for (s, m) in items.iter().take(n_ok) {
                    let b = model(*m).unwrap();
                    let (cum, prob) = b.lcp64(*s).unwrap();
                    if !r.encode(cum, prob, b.p as u32) {
                        r_valid = false;
                    }
                    info += b.p as f64 - (prob as f64).log2();
                    let d = (C::SB - C::WB) as i32 - b.p as i32;
                    eps += if d <= 0 { 1.0 } else { -(1.0 - (2.0f64).powi(-d)).log2() };
                    message.push((*s, *m));
                }
            }
            RangeOp::Snapshot => {
                let pos = match &enc {
                    Enc::V(c) => Some(c.pos()),
                    Enc::Sm(c) => Some(c.pos()),
                    Enc::St(c) => Some(c.pos()),
                    Enc::Cur(c) => Some(c.pos()),
                    _ => None,
                };
                if let Some((pos, st)) = pos {
                    snaps.push(Snap { pos, lower: s_to(st.lower()), range: s_to(constriction::NonZeroBitArray::get(st.range())), at: message.len(), inverted: enc.num_inverted().unwrap_or(0) });
                    ctx.stats.hit("op-snapshot");
                } else {
                    ctx.stats.hit("skipped-op");
                }
            }
            RangeOp::BadSym { m, sym } => {
                let Some(b) = model(*m) else { ctx.stats.hit("skipped-op"); continue };
                if !b.can_encode() || b.in_support(*sym) {
                    ctx.stats.hit("skipped-op");
                    continue;
                }
                let raw = enc.raw();
                let st = enc.state();
                let wr = enc.written();
                let res = enc.enc(b, *sym);
                ctx.stats.hit("fault-badsym-injected");
                if ctx.on("C09") {
                    if !res.is_impossible() {
                        viol!(ctx, "C09", "range-impossible-symbol-not-rejected", "sym={} model={:?} -> {:?}", sym, t.models[*m], res);
                    }
                    if enc.raw() != raw || enc.state() != st || enc.written() != wr {
                        viol!(ctx, "C09", "range-changed-by-rejected-symbol", "state {:x?} -> {:x?}", st, enc.state());
                    }
                } else if res == EncRes::Ok {
                    return Ok(log);
                }
            }
            RangeOp::Reassemble => {
                let raw = enc.raw();
                let st = enc.state();
                let moved = enc;
                let res = std::panic::catch_unwind(std::panic::AssertUnwindSafe(move || moved.reassemble()));
                ctx.stats.hit("op-encoder-reassembled");
                enc = match res {
                    Ok(e) => e,
                    Err(_) => {
                        if ctx.any(&["C02", "C06", "C08"]) {
                            viol!(ctx, ctx.prop, "range-encoder-raw-parts-refused", "from_raw_parts(into_raw_parts(encoder)) panicked after {} symbols (state {:x?}, parts {:?})", message.len(), st, raw);
                        }
                        return Ok(log);
                    }
                };
                if ctx.any(&["C02", "C06", "C08"]) && (enc.raw() != raw || enc.state() != st) {
                    viol!(ctx, ctx.prop, "range-encoder-changed-by-reassembly", "{:?} -> {:?}", raw, enc.raw());
                }
                // a copy made with `clone_from` into an unrelated encoder is the same encoder
                if message.len() & 1 == 1 {
                    macro_rules! cf {
                        ($c:expr, $fresh:expr) => {{
                            let mut target = $fresh;
                            target.clone_from(&*$c);
                            *$c = target;
                            ctx.stats.hit("op-clone-from");
                        }};
                    }
                    match &mut enc {
                        Enc::V(c) => cf!(c, RangeEncoder::<C::W, C::S, Vec<C::W>>::with_backend(vec![C::W::default(); 3])),
                        Enc::Sm(c) => cf!(c, RangeEncoder::<C::W, C::S, SmallVec<[C::W; 4]>>::with_backend(SmallVec::new())),
                        _ => {}
                    }
                    if ctx.any(&["C02", "C06", "C08"]) && (enc.raw() != raw || enc.state() != st) {
                        viol!(ctx, ctx.prop, "range-encoder-changed-by-clone-from", "{:?} -> {:?}", raw, enc.raw());
                    }
                }
            }
            RangeOp::Clear => {
                let Enc::V(c) = &mut enc else { ctx.stats.hit("skipped-op"); continue };
                if !prefix.is_empty() { ctx.stats.hit("skipped-op"); continue }
                if matches!(enc_num_inv, Some(k) if k > 0) { ctx.stats.hit("probe-clear-while-inverted"); }
                c.clear();
                ctx.stats.hit("op-clear");
                r = RefRange::new(C::WB, C::SB);
                message.clear();
                snaps.clear();
                info = 0.0;
                eps = 0.0;
                r_valid = true;
                last_written.clear();
            }
            RangeOp::Inspect { view, n } => {
                if skip_inspect {
                    continue;
                }
                let raw = enc.raw();
                let expect = enc.export();
                ctx.stats.hit(&format!("inspect-{:?}", view));
                if let Some(ni) = enc.num_inverted() {
                    if ni > 0 { ctx.stats.hit("probe-inspect-while-inverted"); }
                }
                match (&mut enc, view) {
                    (Enc::V(c), RView::GetCompressed) => {
                        let shown = to_words(&c.get_compressed());
                        if ctx.on("C08") && Some(&shown) != expect.as_ref() {
                            viol!(ctx, "C08", "range-get-compressed-view-differs", "view={:x?} sealing now={:x?}", shown, expect);
                        }
                    }
                    (Enc::V(c), RView::Decoder) => {
                        let mut d = c.decoder();
                        // the temporary decoder starts at the very beginning of the sink (prefix included)
                        if prefix.is_empty() {
                            for (sym, m) in message.iter().take(*n) {
                                let Some(b) = model(*m) else { break };
                                if !b.can_decode() { break; }
                                let got = <C::W as WordOps>::dec(&mut d, b);
                                if ctx.on("C08") && got != DecRes::Ok(*sym) {
                                    viol!(ctx, "C08", "range-temp-decoder-wrong-symbol", "got {:?} expected {}", got, sym);
                                }
                            }
                        }
                    }
                    (Enc::V(c), RView::Queries) => {
                        let _ = (c.num_words(), c.num_bits(), c.is_empty(), c.pos(), c.maybe_full());
                    }
                    (_, RView::CloneDrop) => {
                        if let Some(mut c2) = enc.clone_() {
                            if let Some((s, m)) = message.last() {
                                if let Some(b) = model(*m) { let _ = c2.enc(b, *s); }
                            }
                        }
                    }
                    _ => {}
                }
                if ctx.on("C08") && enc.raw() != raw {
                    viol!(ctx, "C08", "range-inspection-left-a-trace", "view {:?}: {:?} -> {:?}", view, raw, enc.raw());
                }
            }
        }
        monitors!();
    }
    ctx.op = t.ops.len();
    // a final snapshot at the end of the message (C07: seeking there leaves the decoder exhausted)
    let end_snap = match &enc {
        Enc::V(c) => Some(c.pos()),
        Enc::St(c) => Some(c.pos()),
        Enc::Cur(c) => Some(c.pos()),
        _ => None,
    }
    .map(|(pos, st)| Snap { pos, lower: s_to(st.lower()), range: s_to(constriction::NonZeroBitArray::get(st.range())), at: message.len(), inverted: enc.num_inverted().unwrap_or(0) });

    // ---------------- seal
    let guard_source = matches!(t.source, Source::Guard | Source::IntoDecoder) && matches!(enc, Enc::V(_)) && prefix.is_empty();
    let mut enc_keep = if guard_source { enc.clone_() } else { None };
    let Some(sealed) = enc.finish() else { return Ok(log) };
    log.sealed = Some(sealed.clone());
    if ctx.any(&["C02", "C06"]) && (sealed.len() < last_written.len() || sealed[..last_written.len()] != last_written[..]) {
        viol!(ctx, ctx.prop, "range-written-words-changed", "sealing changed words already handed to the sink: before {:x?} sealed {:x?}", last_written, sealed);
    }
    let msg_words = sealed[prefix.len().min(sealed.len())..].to_vec();
    if sealed.len() < prefix.len() || sealed[..prefix.len()] != prefix[..] {
        if ctx.any(&["C11", "C08", "C02"]) {
            viol!(ctx, ctx.prop, "range-prefix-disturbed", "prefix={:x?} sink now={:x?}", prefix, sealed);
        }
        return Ok(log);
    }
    if message.is_empty() {
        ctx.stats.hit("probe-empty-message");
        if ctx.on("C02") && !msg_words.is_empty() {
            viol!(ctx, "C02", "empty-message-produces-words", "{:x?}", msg_words);
        }
    }
    if ctx.on("C06") && r_valid {
        let want = r.sealed();
        if msg_words != want {
            viol!(ctx, "C06", "range-sealed-words-differ-from-reference", "sealed={:x?} reference={:x?}", msg_words, want);
        }
        ctx.stats.hit("c06-range-messages-compared");
    }
    if ctx.on("C06") {
        if let Some(e) = &t.expect {
            ctx.stats.hit("published-vectors-checked");
            if *e != msg_words {
                viol!(ctx, "C06", "published-vector-mismatch", "the project's documentation prints {:x?} for this message, the encoder produced {:x?}", e, msg_words);
            }
            if r_valid && r.sealed() != *e {
                viol!(ctx, "HARNESS", "reference-disagrees-with-published-vector", "reference {:x?} published {:x?}", r.sealed(), e);
            }
        }
    }
    match msg_words.len().checked_sub(r.renorms) {
        Some(1) => ctx.stats.hit("probe-seal-1-word"),
        Some(2) => ctx.stats.hit("probe-seal-2-words"),
        _ => {}
    }

    // ---------------- store: append the suffix
    let mut stored = sealed.clone();
    let ones = w_to(w_from::<C::W>(u64::MAX));
    let suffix_len = match &t.suffix {
        Suffix::None => 0,
        Suffix::Ones(n) => { stored.extend(std::iter::repeat(ones).take(*n)); *n }
        Suffix::Zeros(n) => { stored.extend(std::iter::repeat(0).take(*n)); *n }
        Suffix::Words(ws) => { stored.extend(ws.iter().map(|&w| w_to(w_from::<C::W>(w)))); ws.len() }
        Suffix::SameAgain => { stored.extend(msg_words.iter().cloned()); msg_words.len() }
    };
    if suffix_len > 0 {
        ctx.stats.hit("fault-append-suffix");
    }
    if !prefix.is_empty() {
        ctx.stats.hit("fault-prefilled-sink");
    }
    let stored_w: Vec<C::W> = stored.iter().map(|&w| w_from(w)).collect();
    let start = prefix.len();

    // ---------------- consumer
    let decs: Vec<(i64, &Built)> = {
        let mut v = Vec::new();
        for (s, m) in &message {
            match model(*m) {
                Some(b) if b.can_decode() => v.push((*s, b)),
                _ => break,
            }
        }
        v
    };
    let full = decs.len() == message.len();
    let props_rt = ["C02", "C11", "C06"];
    macro_rules! consume {
        ($d:expr, $exact_backend:expr, $what:expr) => {{
            let mut d = $d;
            // symbols already obtained through a batch decode (`decode_symbols`,
            // `try_decode_symbols`, `decode_iid_symbols`), to be checked one by one below
            let mut ahead: std::collections::VecDeque<DecRes> = Default::default();
            for (k, (sym, b)) in decs.iter().enumerate() {
                if ahead.is_empty() && (k + decs.len()) % 3 == 0 {
                    // a run of up to 4 symbols whose models share (Probability, PRECISION)
                    let mut r = 1;
                    while r < 4 && k + r < decs.len() && decs[k + r].1.pb == b.pb && decs[k + r].1.p == b.p && !t.reassemble_at.contains(&(k + r)) { r += 1; }
                    if r >= 2 && !t.reassemble_at.contains(&k) {
                        let ms: Vec<&Built> = decs[k..k + r].iter().map(|(_, m)| *m).collect();
                        let same = ms.iter().all(|m| std::ptr::eq(*m, ms[0]));
                        let form = match (k / 3) % 3 { 0 => crate::dynops::DecForm::Symbols, 1 => crate::dynops::DecForm::Try, _ => if same { crate::dynops::DecForm::Iid } else { crate::dynops::DecForm::Symbols } };
                        ctx.stats.hit(&format!("op-dec-batch-{:?}", form));
                        ahead = <C::W as WordOps>::dec_batch(&mut d, form, &ms, None).into();
                        if ahead.len() != r {
                            // (a pseudo error appended by the size-hint observation, or a wrong item count)
                            if ctx.any(&props_rt) {
                                viol!(ctx, ctx.prop, "range-batch-decode-shape", "{}: batch decode ({:?}) of {} symbols returned {:?}", $what, form, r, ahead);
                            }
                            return Ok(log);
                        }
                    }
                }
                if t.reassemble_at.contains(&k) && ahead.is_empty() {
                    // a decoder taken apart between two symbols and put together again is the same decoder
                    let (bulk, state, point) = d.into_raw_parts();
                    ctx.stats.hit("op-decoder-reassembled");
                    d = match RangeDecoder::from_raw_parts(bulk, state, point) {
                        Ok(d) => d,
                        Err(_) => {
                            if ctx.on("C02") {
                                viol!(ctx, "C02", "range-decoder-raw-parts-refused", "{}: from_raw_parts(into_raw_parts(decoder)) refused before symbol {}", $what, k);
                            }
                            return Ok(log);
                        }
                    };
                }
                let got = match ahead.pop_front() { Some(g) => g, None => <C::W as WordOps>::dec(&mut d, b) };
                if let DecRes::Ok(s) = got { log.decoded.push(s); }
                ctx.stats.hit("op-dec");
                if got != DecRes::Ok(*sym) {
                    if ctx.any(&props_rt) {
                        let tag = if suffix_len > 0 || !prefix.is_empty() { "range-decode-affected-by-surrounding-words" } else { "range-roundtrip-mismatch" };
                        // C11 owns the failures that need a suffix/prefix; C02 the plain ones
                        if (ctx.on("C11") && (suffix_len > 0 || !prefix.is_empty())) || (ctx.on("C02") && suffix_len == 0) || ctx.on("C06") {
                            viol!(ctx, ctx.prop, tag, "{}: symbol {} of {}: got {:?} expected {} (sealed={:x?} suffix={:?})", $what, k, decs.len(), got, sym, msg_words, t.suffix);
                        }
                    }
                    return Ok(log);
                }
            }
            if full {
                let me = d.maybe_exhausted();
                if suffix_len == 0 {
                    ctx.stats.hit("exhaustion-checked");
                    if ctx.any(&["C02", "C18"]) && !me {
                        viol!(ctx, ctx.prop, "range-decoder-not-exhausted-after-last-symbol", "{}: maybe_exhausted()=false after decoding all {} symbols of an untouched stream", $what, decs.len());
                    }
                } else if $exact_backend && suffix_len >= (C::SB / C::WB) as usize + 1 {
                    ctx.stats.hit("non-exhaustion-checked");
                    if ctx.on("C18") && me {
                        viol!(ctx, "C18", "range-decoder-exhausted-with-words-left", "{}: maybe_exhausted()=true although {} whole words follow the message", $what, suffix_len);
                    }
                }
            }
        }};
    }
    match t.source {
        Source::Guard if guard_source && suffix_len == 0 => {
            if let Some(Enc::V(c)) = enc_keep.as_mut() {
                consume!(c.decoder(), true, "encoder.decoder()");
            }
        }
        Source::IntoDecoder if guard_source && suffix_len == 0 => {
            if let Some(Enc::V(c)) = enc_keep.take() {
                if c.bulk().len() & 1 == 1 {
                    let d: RangeDecoder<C::W, C::S, _> = c.into();
                    consume!(d, true, "RangeDecoder::from(encoder)");
                } else {
                    match c.into_decoder() {
                        Ok(d) => consume!(d, true, "into_decoder()"),
                        Err(()) => if ctx.on("C02") { viol!(ctx, "C02", "into-decoder-failed", "") },
                    }
                }
            }
        }
        Source::Slice => {
            let d = RangeDecoder::<C::W, C::S, _>::with_backend(Cursor::new_at_pos(&stored_w[..], start).expect("in range")).unwrap_infallible();
            consume!(d, true, "Cursor<&[W]>");
        }
        Source::ForCompressed if start == 0 => {
            let d = RangeDecoder::<C::W, C::S, _>::for_compressed(&stored_w).unwrap_infallible();
            consume!(d, true, "for_compressed");
        }
        Source::FallibleIter => {
            let it = stored_w[start..].to_vec().into_iter().map(Ok::<C::W, ()>);
            if stored_w.len() & 1 == 1 {
                // a stream without a usable size hint (file, socket, `iter::from_fn`)
                let _ = it;
                // ... that is not fused either: it carries two frames (this message twice), each
                // followed by one end-of-data. The adapter documents that it fuses its source, so
                // a decoder on the first frame must never reach into the second one, and a
                // second decoder started on the same source afterwards must find its frame intact.
                let frame: Vec<C::W> = stored_w[start..].to_vec();
                let n = frame.len();
                let pos = std::cell::Cell::new(0usize);
                let mut src = std::iter::from_fn(|| {
                    let i = pos.get();
                    let r = if i < n { Some(Ok::<C::W, ()>(frame[i])) } else if i == n { None } else if i <= 2 * n { Some(Ok(frame[i - n - 1])) } else { None };
                    if i <= 2 * n + 1 { pos.set(i + 1); }
                    r
                });
                ctx.stats.hit("probe-iterator-without-size-hint");
                match RangeDecoder::<C::W, C::S, _>::with_backend(FallibleIteratorReadWords::new(src.by_ref())) {
                    Ok(d) => consume!(d, false, "FallibleIteratorReadWords(from_fn, frame 1)"),
                    Err(()) => {}
                }
                // (only when the first decoder certainly ran to the end of its frame: the whole
                // message was decoded and nothing was appended to it)
                if n > 0 && suffix_len == 0 && full {
                    // the reader of the framing skips the end-of-frame mark if the first decoder
                    // stopped exactly in front of it
                    if pos.get() == n { pos.set(n + 1); }
                    if pos.get() != n + 1 && ctx.any(&["C02", "C17"]) {
                        viol!(ctx, ctx.prop, "range-decoder-read-into-next-frame", "after decoding frame 1 ({} words) through the iterator adapter the source stands at word {} (the adapter must stop at the first end-of-data)", n, pos.get());
                    }
                    match RangeDecoder::<C::W, C::S, _>::with_backend(FallibleIteratorReadWords::new(src.by_ref())) {
                        Ok(d) => consume!(d, false, "FallibleIteratorReadWords(from_fn, frame 2 of the same source)"),
                        Err(()) => {}
                    }
                }
            } else {
                match RangeDecoder::<C::W, C::S, _>::with_backend(FallibleIteratorReadWords::new(it)) {
                    Ok(d) => consume!(d, false, "FallibleIteratorReadWords"),
                    Err(()) => {}
                }
            }
        }
        Source::QStore => {
            let mut qs = QStore(Store::new(stored_w.clone()));
            qs.0.qpos = start;
            match RangeDecoder::<C::W, C::S, _>::with_backend(qs) {
                Ok(d) => consume!(d, true, "QStore"),
                Err(_) => {}
            }
        }
        Source::ReversedCursor => {
            let mut rev = stored_w[start..].to_vec();
            rev.reverse();
            let d = RangeDecoder::<C::W, C::S, _>::with_backend(Reverse(Cursor::new_at_write_end(rev))).unwrap_infallible();
            consume!(d, true, "Reverse<Cursor>");
        }
        _ => {
            if start == 0 {
                let d = RangeDecoder::<C::W, C::S, _>::from_compressed(stored_w.clone()).unwrap_infallible();
                consume!(d, true, "from_compressed(Vec)");
            } else {
                let d = RangeDecoder::<C::W, C::S, _>::with_backend(Cursor::new_at_pos(stored_w.clone(), start).expect("in range")).unwrap_infallible();
                consume!(d, true, "Cursor<Vec> at offset");
            }
        }
    }
    ctx.stats.hit("messages-roundtripped");

    // ---------------- seeker (C07): owned, borrowed and simulator-store backends
    if ctx.on("C07") && (!snaps.is_empty() || end_snap.is_some()) {
        macro_rules! seeker {
            ($dec:expr, $what:expr) => { seeker!($dec, $what, |p: usize| p) };
            ($dec:expr, $what:expr, $map:expr) => {{
                let mut d = $dec;
                let map_pos = $map;
                ctx.stats.hit($what);
                let mut all: Vec<&Snap> = snaps.iter().collect();
                if let Some(e) = end_snap.as_ref() { all.push(e); }
                let n_all = all.len();
                // index of the next symbol the decoder stands in front of (after the last seek)
                let mut cur: Option<usize> = None;
                for (si, n) in t.seeks.iter() {
                    let s = all[*si % n_all];
                    let state = constriction::stream::queue::RangeCoderState::<C::W, C::S>::new(s_from(s.lower), s_from(s.range)).expect("valid state");
                    ctx.stats.hit("op-seek");
                    match s.inverted { 0 => {}, 1 => ctx.stats.hit("probe-snapshot-inverted-1"), 2 => ctx.stats.hit("probe-snapshot-inverted-2"), _ => ctx.stats.hit("probe-snapshot-inverted-3plus") }
                    if d.seek((map_pos(s.pos), state)).is_err() {
                        viol!(ctx, "C07", "range-seek-refused", "seek to snapshot after {} symbols (pos {}) refused; data has {} words", s.at, s.pos, stored_w.len());
                    }
                    if s.at == message.len() && suffix_len == 0 {
                        ctx.stats.hit("probe-seek-to-end");
                        if !d.maybe_exhausted() {
                            viol!(ctx, "C07", "range-seek-to-end-not-exhausted", "after seeking to the final position maybe_exhausted()=false");
                        }
                    }
                    for (k, (sym, b)) in decs.iter().enumerate().skip(s.at).take(*n) {
                        let got = <C::W as WordOps>::dec(&mut d, b);
                        ctx.stats.hit("seek-symbols-checked");
                        if got != DecRes::Ok(*sym) {
                            viol!(ctx, "C07", "range-seek-wrong-symbol", "after seek to snapshot at symbol {} (pos {}, inverted {}): symbol {}: got {:?} expected {}", s.at, s.pos, s.inverted, k, got, sym);
                        }
                    }
                    cur = Some((s.at + *n).min(decs.len()).max(s.at.min(decs.len())));
                }
                // positions beyond the data are refused
                let state = constriction::stream::queue::RangeCoderState::<C::W, C::S>::default();
                ctx.stats.hit("fault-seek-beyond");
                if d.seek((stored_w.len() + 1, state)).is_ok() {
                    viol!(ctx, "C07", "range-seek-beyond-data-accepted", "pos {} with {} words", stored_w.len() + 1, stored_w.len());
                }
                // a refused seek leaves the decoder where it was: decoding simply goes on
                if let Some(c) = cur {
                    for (k, (sym, b)) in decs.iter().enumerate().skip(c).take(2) {
                        let got = <C::W as WordOps>::dec(&mut d, b);
                        if got != DecRes::Ok(*sym) {
                            viol!(ctx, "C07", "range-wrong-symbol-after-refused-seek", "symbol {}: got {:?} expected {}", k, got, sym);
                        }
                    }
                }
            }};
        }
        match (t.seeks.len() + t.ops.len() / 3) % 4 {
            3 => {
                // the same words stored back to front and consumed from the end of the buffer:
                // every recorded position p corresponds to len - p
                let mut rev = stored_w.clone();
                rev.reverse();
                let len = rev.len();
                let cur = Cursor::new_at_pos(rev, len - start).expect("in range");
                seeker!(RangeDecoder::<C::W, C::S, _>::with_backend(constriction::backends::Reverse(cur)).unwrap_infallible(), "seeker-reversed-cursor", |p: usize| len - p)
            }
            0 => seeker!(RangeDecoder::<C::W, C::S, _>::with_backend(Cursor::new_at_pos(stored_w.clone(), start).expect("in range")).unwrap_infallible(), "seeker-owned-cursor"),
            1 => seeker!(RangeDecoder::<C::W, C::S, _>::with_backend(Cursor::new_at_pos(&stored_w[..], start).expect("in range")).unwrap_infallible(), "seeker-borrowed-cursor"),
            _ => {
                let mut qs = QStore(Store::new(stored_w.clone()));
                qs.0.qpos = start;
                match RangeDecoder::<C::W, C::S, _>::with_backend(qs) {
                    Ok(d) => seeker!(d, "seeker-store"),
                    Err(_) => {}
                }
            }
        }
    }
    log.completed = true;
    Ok(log)
}

// ---------------------------------------------------------------------------------------
// generation

/// one-step look-ahead: choose the symbol of `b` that steers the encoder towards a carry
/// situation (lower just below a word boundary / range near its minimum)
fn steer_symbol<C: Ws>(rng: &mut Rng, b: &Built, lower: u128, range: u128, goal: u64) -> i64 {
    let p = b.p as u32;
    let scale = range >> p;
    let smask: u128 = if C::SB >= 128 { u128::MAX } else { (1u128 << C::SB) - 1 };
    let mut best = (u128::MAX, b.support[0]);
    let cands: Vec<i64> = if b.support.len() <= 64 { b.support.clone() } else { (0..64).map(|_| *rng.pick(&b.support)).collect() };
    for s in cands {
        let Some((cum, prob)) = b.lcp64(s) else { continue };
        let mut nl = lower.wrapping_add(scale * cum as u128) & smask;
        let mut nr = scale * prob as u128;
        let min_range = 1u128 << (C::SB - C::WB);
        if nr < min_range {
            // renormalisation
            nr <<= C::WB;
            nl = (nl << C::WB) & smask;
        }
        let window = nl & (min_range - 1);
        let score = match goal {
            // lower's low part just below a word boundary: all-ones-ish
            0 => (min_range - 1) - window,
            // the measure-small region the sealing rule has to get right: range barely above
            // its minimum and lower just above a word boundary
            1 => (nr - min_range) + window,
            // upper end close to wrapping
            2 => (smask - nl).min(nl),
            // range exactly at / next to the renormalisation threshold
            _ => nr - min_range,
        };
        if score < best.0 {
            best = (score, s);
        }
    }
    best.1
}

/// Adversarial table synthesis: search (cum, prob) at precision `p` that moves the encoder
/// state (lower, range) into a chosen measure-small region after the step.  Returns the pair
/// with the best score (full search for p <= 8, sampled otherwise).
fn adversarial_pair<C: Ws>(rng: &mut Rng, p: u32, lower: u128, range: u128, goal: u64) -> (u64, u64, u128) {
    let scale = range >> p;
    let smask: u128 = if C::SB >= 128 { u128::MAX } else { (1u128 << C::SB) - 1 };
    let min_range = 1u128 << (C::SB - C::WB);
    let total: u64 = if p >= 64 { u64::MAX } else { 1u64 << p };
    let eval = |cum: u64, prob: u64| -> u128 {
        let mut nl = lower.wrapping_add(scale * cum as u128) & smask;
        let mut nr = scale * prob as u128;
        if nr < min_range {
            nr <<= C::WB;
            nl = (nl << C::WB) & smask;
        }
        let window = nl & (min_range - 1);
        match goal {
            0 => (nr - min_range) + window,
            1 => (nr - min_range) + ((min_range - 1) - window),
            _ => (min_range - 1) - window,
        }
    };
    let mut best = (0u64, 1u64, u128::MAX);
    if p <= 8 {
        for prob in 1..total {
            for cum in 0..=(total - prob) {
                if cum == 0 && prob == total { continue; }
                let sc = eval(cum, prob);
                if sc < best.2 { best = (cum, prob, sc); }
            }
        }
    } else {
        for _ in 0..4096 {
            let prob = 1 + rng.below(total - 1);
            let cum = rng.below(total - prob + 1);
            let sc = eval(cum, prob);
            if sc < best.2 { best = (cum, prob, sc); }
        }
    }
    best
}

pub fn generate(seed: u64, prop: &str, thorough: bool) -> RangeTrace {
    let mut root = Rng::new(seed);
    let mut rng = root.fork("workload");
    let mut bias = root.fork("bias");
    let mut frng = root.fork("faults");
    let cfg = match bias.below(10) {
        0..=3 => 0,           // (u8,u16): carries galore
        4 | 5 => 1,           // (u8,u32): State wider than two words
        6 => 2,
        _ => bias.usize(CONFIGS.len()),
    };
    let (wb, _sb) = CONFIGS[cfg];
    let menu = menu_for_word(wb);
    let n_models = 1 + rng.usize(4);
    let max_syms = if rng.chance(1, 8) { 300 } else { 2 + rng.usize(40) };
    let lib_share = if prop == "C09" { 60 } else { 30 };
    let mut models = Vec::new();
    let mut built = Vec::new();
    for _ in 0..n_models {
        let (pb, p) = *rng.pick(&menu);
        let spec = if bias.chance(1, 3) {
            // adversarial-friendly: many small-probability symbols so that look-ahead has choices
            gen_table(&mut rng, pb, p, 64)
        } else {
            gen_spec(&mut rng, pb, p, max_syms, lib_share)
        };
        built.push(build_caught(&spec, Repr::Plain).expect("buildable"));
        models.push(spec);
    }
    let mean = match prop {
        "C12" => if rng.chance(1, 4) { 400 } else { 40 },
        _ => 14,
    };
    let cap = if prop == "C12" || (thorough && rng.chance(1, 50)) { 2000 } else { 200 };
    let n_syms = if prop == "C12" && bias.chance(1, if thorough { 20 } else { 60 }) {
        // long message: small per-symbol losses need many symbols to use up the constant
        20_000 + rng.usize(20_000)
    } else if rng.chance(1, 25) { 0 } else { rng.len(mean, cap) };
    let sink = match prop {
        "C08" | "C18" => Sink::Vec,
        "C07" => bias.pick(&[Sink::Vec, Sink::Vec, Sink::Store, Sink::Cursor]).clone(),
        _ => bias.pick(&[Sink::Vec, Sink::Vec, Sink::Vec, Sink::Small, Sink::Callback, Sink::FallibleCallback, Sink::Cursor, Sink::Store]).clone(),
    };
    let prefix: Vec<u64> = if matches!(prop, "C11" | "C08" | "C18" | "C07") && frng.chance(1, 4) {
        (0..1 + frng.usize(5)).map(|_| frng.word(wb)).collect()
    } else {
        Vec::new()
    };
    let w_inspect = match prop { "C08" => 40, "C18" => 5, _ => 3 };
    let w_badsym = if prop == "C09" { 25 } else { 0 };
    let w_snap = if prop == "C07" { 35 } else { 0 };
    let w_batch = 6;
    let w_reasm = if matches!(prop, "C02" | "C06" | "C08") { 4 } else { 0 };
    let can_clear = sink == Sink::Vec && prefix.is_empty();
    let steer = bias.chance(2, 3);
    let goal = bias.below(4);
    let adversarial = bias.chance(1, 3);
    let adv_goal = bias.below(3);
    let small_menu: Vec<(u8, u8)> = menu.iter().cloned().filter(|(_, p)| *p <= 8).collect();

    // shadow encoder state for the one-step look-ahead (uses the real encoder: the generator
    // may run library code; determinism is unaffected)
    let mut ops = Vec::new();
    let mut n_snaps = 0;
    crate::for_cfg!(cfg, |C| {
        let mut shadow = RangeEncoder::<<C as Ws>::W, <C as Ws>::S>::new();
        let mut encoded = 0;
        let mut n_clears = 0;
        while encoded < n_syms {
            let r = rng.below(100);
            if r < w_inspect {
                let view = *rng.pick(&[RView::GetCompressed, RView::GetCompressed, RView::Decoder, RView::Queries, RView::CloneDrop]);
                ops.push(RangeOp::Inspect { view, n: rng.usize(6) });
                if rng.chance(1, 4) {
                    ops.push(RangeOp::Inspect { view, n: rng.usize(6) });
                }
                continue;
            }
            if r < w_inspect + w_badsym {
                let m = rng.usize(n_models);
                if built[m].can_encode() {
                    let lo = *built[m].support.iter().min().unwrap();
                    let hi = *built[m].support.iter().max().unwrap();
                    let s = built[m].support[frng.usize(built[m].support.len())];
                    let sym = match frng.below(7) {
                        0 => lo - 1,
                        1 => hi + 1,
                        2 => hi + 1 + frng.below(1000) as i64,
                        3 => s + (1 + frng.below(3) as i64) * (1i64 << 8),
                        4 => s + (1 + frng.below(3) as i64) * (1i64 << 16),
                        5 => s + (1 + frng.below(3) as i64) * (1i64 << 32),
                        _ => lo - 1 - frng.below(1000) as i64,
                    };
                    if !built[m].in_support(sym) {
                        ops.push(RangeOp::BadSym { m, sym });
                    }
                }
                continue;
            }
            if r < w_inspect + w_badsym + w_snap {
                ops.push(RangeOp::Snapshot);
                n_snaps += 1;
                continue;
            }
            if r < w_inspect + w_badsym + w_snap + w_reasm {
                ops.push(RangeOp::Reassemble);
                continue;
            }
            if can_clear && n_clears < 2 {
                // restart on the same encoder: rarely at a random point, often while words are held back
                let inverted = !matches!(shadow.clone().into_raw_parts().2, constriction::stream::queue::EncoderSituation::Normal);
                if (inverted && rng.chance(1, 6)) || rng.chance(1, 120) {
                    ops.push(RangeOp::Clear);
                    shadow = RangeEncoder::<<C as Ws>::W, <C as Ws>::S>::new();
                    n_clears += 1;
                    continue;
                }
            }
            if r < w_inspect + w_badsym + w_snap + w_reasm + w_batch {
                let form = *rng.pick(&[EncForm::Symbols, EncForm::Try, EncForm::Iid, EncForm::Loop]);
                let k = rng.len(3, 10).min(n_syms - encoded);
                let m0 = rng.usize(n_models);
                if !built[m0].can_encode() || k == 0 {
                    continue;
                }
                let same: Vec<usize> = (0..n_models).filter(|&j| built[j].pb == built[m0].pb && built[j].p == built[m0].p && built[j].can_encode()).collect();
                let items: Vec<(i64, usize)> = (0..k).map(|_| {
                    let m = if form == EncForm::Iid { m0 } else { *rng.pick(&same) };
                    (pick_symbol(&mut rng, &built[m]), m)
                }).collect();
                let fail_at = if form == EncForm::Try && frng.chance(1, 2) { Some(frng.usize(k + 1)) } else { None };
                let n_ok = fail_at.unwrap_or(k).min(k);
                for (s, m) in items.iter().take(n_ok) {
                    let _ = <<C as Ws>::W as WordOps>::enc(&mut shadow, &built[*m], *s);
                    encoded += 1;
                }
                ops.push(RangeOp::EncBatch { form, items, fail_at });
                continue;
            }
            if adversarial && rng.chance(1, 3) && models.len() < 40 {
                // synthesise a table around a solved (cum, prob) pair
                let (pb, p) = *rng.pick(&small_menu);
                let st = shadow.state();
                let (cum, prob, _) = adversarial_pair::<C>(&mut rng, p as u32, s_to(st.lower()), s_to(constriction::NonZeroBitArray::get(st.range())), adv_goal);
                let total: u128 = 1u128 << p;
                let rest = total - cum as u128 - prob as u128;
                let mut probs = Vec::new();
                if cum > 0 { probs.push(cum); }
                let idx = probs.len() as i64;
                probs.push(prob);
                if rest > 0 { probs.push(rest as u64); }
                if probs.len() >= 2 {
                    let spec = ModelSpec { pb, p, kind: Kind::Table { first: 0, probs } };
                    if let Some(b) = build_caught(&spec, Repr::Plain) {
                        let _ = <<C as Ws>::W as WordOps>::enc(&mut shadow, &b, idx);
                        built.push(b);
                        models.push(spec);
                        ops.push(RangeOp::Enc { sym: idx, m: models.len() - 1 });
                        encoded += 1;
                        continue;
                    }
                }
            }
            let m = rng.usize(n_models);
            if !built[m].can_encode() {
                continue;
            }
            let sym = if steer && rng.chance(3, 4) {
                let st = shadow.state();
                steer_symbol::<C>(&mut rng, &built[m], s_to(st.lower()), s_to(constriction::NonZeroBitArray::get(st.range())), goal)
            } else {
                pick_symbol(&mut rng, &built[m])
            };
            let _ = <<C as Ws>::W as WordOps>::enc(&mut shadow, &built[m], sym);
            ops.push(RangeOp::Enc { sym, m });
            encoded += 1;
        }
    });
    if prop == "C08" && rng.chance(1, 2) {
        ops.push(RangeOp::Inspect { view: RView::GetCompressed, n: 0 });
    }
    let suffix = match prop {
        "C11" => match frng.below(8) {
            0 | 1 | 2 => Suffix::Ones(1 + frng.usize(20)),
            3 => Suffix::Zeros(1 + frng.usize(20)),
            4 | 5 => Suffix::Words((0..1 + frng.usize(12)).map(|_| frng.word(wb)).collect()),
            6 => Suffix::SameAgain,
            _ => Suffix::None,
        },
        "C18" => if frng.chance(1, 2) { Suffix::Words((0..18 + frng.usize(4)).map(|_| frng.word(wb)).collect()) } else { Suffix::None },
        "C07" => if frng.chance(1, 4) { Suffix::Ones(1 + frng.usize(6)) } else { Suffix::None },
        _ => Suffix::None,
    };
    let source = *bias.pick(&[Source::CursorVec, Source::CursorVec, Source::Slice, Source::ForCompressed, Source::FallibleIter, Source::QStore, Source::ReversedCursor, Source::Guard, Source::IntoDecoder]);
    let reassemble_at: Vec<usize> = if prop == "C02" && rng.chance(1, 3) { (0..1 + rng.usize(3)).map(|_| rng.usize(n_syms + 1)).collect() } else { Vec::new() };
    let seeks = if prop == "C07" {
        (0..1 + rng.usize(10)).map(|_| (rng.usize(n_snaps + 1), rng.usize(8))).collect()
    } else {
        Vec::new()
    };
    let reprs: Vec<Repr> = if prop == "C09" && bias.chance(1, 2) {
        models.iter().map(|m| { let e = crate::skew::reprs_for(m).0; *bias.pick(&e) }).collect()
    } else {
        Vec::new()
    };
    RangeTrace { cfg, sink, prefix, models, ops, source, suffix, seeks, expect: None, reassemble_at, reprs }
}
