//! Registry: which simulated worlds serve which property; trace (de)serialisation; the
//! world-independent hooks the minimiser needs.

use serde::{Deserialize, Serialize};

use crate::ans;
use crate::range;
use crate::bits;
use crate::backend;
use crate::chain;
use crate::skew;
use crate::garbage;
use crate::poison;
use crate::diag;
use crate::common::*;
use crate::model::Repr;

#[derive(Clone, Debug, Serialize, Deserialize, PartialEq)]
pub enum Trace {
    Ans(ans::AnsTrace),
    Range(range::RangeTrace),
    Bits(bits::BitsTrace),
    Backend(backend::BackendTrace),
    Chain(chain::ChainTrace),
    Skew(skew::SkewTrace),
    Garbage(garbage::GarbageTrace),
    Poison(poison::PoisonTrace),
    Diag(diag::DiagTrace),
    /// stand-in when a trace could not be printed by a generator child: regenerate in place
    Regenerate { prop: String, verif_seed: u64, index: u64, thorough: bool },
}

pub struct Meta {
    pub worlds: Vec<&'static str>,
    pub rule: String,
    pub state_measure: String,
    pub stubs: Vec<&'static str>,
    pub assumptions: Vec<String>,
}

pub fn worlds_for(prop: &str) -> &'static [&'static str] {
    match prop {
        "C01" | "C04" => &["ans"],
        "C02" | "C11" => &["range"],
        "C06" | "C07" | "C12" => &["ans", "range"],
        "C08" => &["ans", "range", "bits"],
        "C18" => &["ans", "range", "bits", "ans", "range", "diag"],
        "C09" => &["ans", "range", "ans", "range", "bits", "chain"],
        "C13" | "C14" => &["chain"],
        "C05" => &["skew"],
        "C10" => &["garbage"],
        "C20" => &["poison", "ans", "range", "poison", "bits", "backend", "chain", "poison", "skew", "garbage"],
        "C16" => &["bits"],
        "C17" => &["backend"],
        _ => &[],
    }
}

pub fn generate(prop: &str, seed: u64, index: u64, thorough: bool) -> Trace {
    let ws = worlds_for(prop);
    assert!(!ws.is_empty(), "harness: no world registered for {}", prop);
    if prop == "C06" {
        // the first runs of every C06 batch replay the published vectors
        let v = crate::vectors::vectors();
        if (index as usize) < v.len() {
            return v[index as usize].clone();
        }
    }
    // C20 re-uses every explorer with that explorer's own workload bias
    let sub = |cands: &[&'static str]| -> &'static str { cands[((index / ws.len() as u64) % cands.len() as u64) as usize] };
    let prop: &str = if prop == "C20" {
        match ws[(index % ws.len() as u64) as usize] {
            "ans" => sub(&["C01", "C04", "C07", "C08", "C09", "C12", "C18"]),
            "range" => sub(&["C02", "C07", "C08", "C09", "C11", "C12", "C18"]),
            "bits" => sub(&["C16", "C08", "C09"]),
            "chain" => sub(&["C13", "C14", "C09"]),
            _ => "C20",
        }
    } else {
        prop
    };
    match ws[(index % ws.len() as u64) as usize] {
        "ans" => Trace::Ans(ans::generate(seed, prop, thorough)),
        "range" => Trace::Range(range::generate(seed, prop, thorough)),
        "bits" => Trace::Bits(bits::generate(seed, prop, thorough)),
        "backend" => Trace::Backend(backend::generate(seed, prop, thorough)),
        "chain" => Trace::Chain(chain::generate(seed, prop, thorough)),
        "skew" => Trace::Skew(skew::generate(seed, prop, thorough)),
        "garbage" => Trace::Garbage(garbage::generate(seed, prop, thorough)),
        "poison" => Trace::Poison(poison::generate(seed, prop, thorough)),
        "diag" => Trace::Diag(diag::generate(seed, prop, thorough)),
        w => panic!("harness: unknown world {}", w),
    }
}

pub fn exec(t: &Trace, ctx: &mut Ctx) -> Result<(), Violation> {
    match t {
        Trace::Regenerate { prop, verif_seed, index, thorough } => {
            let inner = generate(prop, crate::rng::run_seed(*verif_seed, prop, *index), *index, *thorough);
            exec(&inner, ctx)
        }
        Trace::Ans(t) => {
            if ctx.on("C08") {
                // twin run without the inspections: every later observable must be equal
                let twin = {
                    let mut st = Stats::default();
                    let mut c2 = Ctx { prop: "none", stats: &mut st, op: 0 };
                    ans::exec(t, &mut c2, true)
                };
                let log = ans::exec(t, ctx, false)?;
                if let Ok(twin) = twin {
                    if twin.completed && (twin.decoded != log.decoded || twin.final_words != log.final_words) {
                        return Err(Violation::new("C08", "ans-differs-from-uninspected-twin", t.ops.len(),
                            format!("with inspections: decoded {:?} final {:x?}; without: decoded {:?} final {:x?}", log.decoded, log.final_words, twin.decoded, twin.final_words)));
                    }
                    ctx.stats.hit("c08-twin-compared");
                }
                Ok(())
            } else {
                ans::exec(t, ctx, false).map(|_| ())
            }
        }
        Trace::Backend(t) => backend::exec(t, ctx),
        Trace::Chain(t) => chain::exec(t, ctx),
        Trace::Skew(t) => skew::exec(t, ctx),
        Trace::Garbage(t) => garbage::exec(t, ctx),
        Trace::Poison(t) => poison::exec(t, ctx),
        Trace::Diag(t) => diag::exec(t, ctx),
        Trace::Bits(t) => {
            if ctx.on("C08") {
                let twin = {
                    let mut st = Stats::default();
                    let mut c2 = Ctx { prop: "none", stats: &mut st, op: 0 };
                    bits::exec(t, &mut c2, true)
                };
                let out = bits::exec(t, ctx, false)?;
                if let Ok(twin) = twin {
                    if twin != out {
                        return Err(Violation::new("C08", "bits-differs-from-uninspected-twin", t.ops.len(), format!("with inspections {:x?} without {:x?}", out, twin)));
                    }
                    ctx.stats.hit("c08-twin-compared");
                }
                Ok(())
            } else {
                bits::exec(t, ctx, false).map(|_| ())
            }
        }
        Trace::Range(t) => {
            if ctx.on("C08") {
                let twin = {
                    let mut st = Stats::default();
                    let mut c2 = Ctx { prop: "none", stats: &mut st, op: 0 };
                    range::exec(t, &mut c2, true)
                };
                let log = range::exec(t, ctx, false)?;
                if let Ok(twin) = twin {
                    if twin.completed && log.completed && (twin.decoded != log.decoded || twin.sealed != log.sealed) {
                        return Err(Violation::new("C08", "range-differs-from-uninspected-twin", t.ops.len(),
                            format!("with inspections: sealed {:x?}; without: {:x?}", log.sealed, twin.sealed)));
                    }
                    ctx.stats.hit("c08-twin-compared");
                }
                Ok(())
            } else {
                range::exec(t, ctx, false).map(|_| ())
            }
        }
    }
}

pub fn ops_len(t: &Trace) -> usize {
    match t {
        Trace::Regenerate { .. } => 0,
        Trace::Ans(t) => t.ops.len(),
        Trace::Range(t) => t.ops.len(),
        Trace::Bits(t) => t.ops.len(),
        Trace::Backend(t) => t.ops.len(),
        Trace::Chain(t) => t.steps.len(),
        Trace::Skew(t) => t.symbols.len(),
        Trace::Garbage(t) => t.decodes.len(),
        Trace::Diag(t) => t.n,
        Trace::Poison(t) => match t {
            poison::PoisonTrace::BufMut { uses, .. } => uses.len() + 2,
            poison::PoisonTrace::Floats { queries, .. } => queries.len() + 2,
            poison::PoisonTrace::Cdf { queries, .. } => queries.len() + 2,
            poison::PoisonTrace::Quantile { quantiles, .. } => quantiles.len() + 2,
            poison::PoisonTrace::Tables { queries, .. } => queries.len() + 2,
            poison::PoisonTrace::ValidModel { .. } => 2,
            poison::PoisonTrace::RawParts { uses, .. } => uses.len() + 2,
        },
    }
}

pub fn without_ops(t: &Trace, from: usize, to: usize) -> Trace {
    match t {
        Trace::Regenerate { .. } => t.clone(),
        Trace::Ans(t) => {
            let mut t = t.clone();
            t.ops.drain(from..to.min(t.ops.len()));
            Trace::Ans(t)
        }
        Trace::Range(t) => {
            let mut t = t.clone();
            t.ops.drain(from..to.min(t.ops.len()));
            Trace::Range(t)
        }
        Trace::Bits(t) => {
            let mut t = t.clone();
            t.ops.drain(from..to.min(t.ops.len()));
            Trace::Bits(t)
        }
        Trace::Backend(t) => {
            let mut t = t.clone();
            t.ops.drain(from..to.min(t.ops.len()));
            Trace::Backend(t)
        }
        Trace::Chain(t) => {
            let mut t = t.clone();
            t.steps.drain(from..to.min(t.steps.len()));
            Trace::Chain(t)
        }
        Trace::Skew(t) => {
            let mut t = t.clone();
            t.symbols.drain(from..to.min(t.symbols.len()));
            Trace::Skew(t)
        }
        Trace::Garbage(t) => {
            let mut t = t.clone();
            t.decodes.drain(from..to.min(t.decodes.len()));
            Trace::Garbage(t)
        }
        Trace::Diag(t) => {
            let mut t = t.clone();
            t.n = t.n.saturating_sub(to - from).max(2);
            Trace::Diag(t)
        }
        Trace::Poison(t) => {
            let mut t = t.clone();
            // ops_len counts two structural steps before the droppable list
            let (a, b) = (from.saturating_sub(2), to.saturating_sub(2));
            match &mut t {
                poison::PoisonTrace::BufMut { uses, .. } => { let b = b.min(uses.len()); if a < b { uses.drain(a..b); } }
                poison::PoisonTrace::Floats { queries, .. } => { let b = b.min(queries.len()); if a < b { queries.drain(a..b); } }
                poison::PoisonTrace::Cdf { queries, .. } => { let b = b.min(queries.len()); if a < b { queries.drain(a..b); } }
                poison::PoisonTrace::Quantile { quantiles, .. } => { let b = b.min(quantiles.len()); if a < b { quantiles.drain(a..b); } }
                poison::PoisonTrace::Tables { queries, .. } => { let b = b.min(queries.len()); if a < b { queries.drain(a..b); } }
                poison::PoisonTrace::ValidModel { .. } => {}
                poison::PoisonTrace::RawParts { uses, .. } => { let b = b.min(uses.len()); if a < b { uses.drain(a..b); } }
            }
            Trace::Poison(t)
        }
    }
}

pub fn simplifications(t: &Trace) -> Vec<Trace> {
    let mut out = Vec::new();
    match t {
        Trace::Regenerate { .. } => {}
        Trace::Poison(_) => {}
        Trace::Diag(_) => {}
        Trace::Garbage(t) => {
            if t.data.len() > 1 {
                for cut in [t.data.len() / 2, 1] {
                    let mut c = t.clone();
                    c.data.drain(0..cut);
                    c.origin = "minimised".into();
                    out.push(Trace::Garbage(c));
                    let mut c = t.clone();
                    c.data.truncate(t.data.len() - cut);
                    c.origin = "minimised".into();
                    out.push(Trace::Garbage(c));
                }
            }
            if t.src != garbage::Src::Vec {
                let mut c = t.clone();
                c.src = garbage::Src::Vec;
                c.err_at = None;
                out.push(Trace::Garbage(c));
            }
        }
        Trace::Skew(t) => {
            for (a, b, c) in [(Repr::Plain, t.twin, t.consumer), (t.producer, Repr::Plain, t.consumer), (t.producer, t.twin, Repr::Plain)] {
                if (a, b, c) != (t.producer, t.twin, t.consumer) {
                    let mut x = t.clone();
                    x.producer = a;
                    x.twin = b;
                    x.consumer = c;
                    out.push(Trace::Skew(x));
                }
            }
            if t.range {
                let mut x = t.clone();
                x.range = false;
                out.push(Trace::Skew(x));
            }
        }
        Trace::Chain(t) => {
            if t.data.len() > 2 {
                for cut in [t.data.len() / 2, 1] {
                    let mut c = t.clone();
                    c.data.drain(0..cut);
                    out.push(Trace::Chain(c));
                }
            }
            if t.way != chain::Way::Suffix {
                let mut c = t.clone();
                c.way = chain::Way::Suffix;
                out.push(Trace::Chain(c));
            }
        }
        Trace::Bits(t) => {
            if t.backend != bits::BBackend::Vec {
                let mut c = t.clone();
                c.backend = bits::BBackend::Vec;
                out.push(Trace::Bits(c));
            }
            if !t.prefix.is_empty() {
                let mut c = t.clone();
                c.prefix.clear();
                out.push(Trace::Bits(c));
            }
            if t.word != 8 {
                let mut c = t.clone();
                c.word = 8;
                out.push(Trace::Bits(c));
            }
        }
        Trace::Backend(t) => {
            if t.init.len() > 1 {
                let mut c = t.clone();
                c.init.truncate(t.init.len() / 2);
                c.pos = c.pos.min(c.init.len());
                out.push(Trace::Backend(c));
            }
            if t.word != 8 {
                let mut c = t.clone();
                c.word = 8;
                out.push(Trace::Backend(c));
            }
        }
        Trace::Range(t) => {
            if t.sink != range::Sink::Vec {
                let mut c = t.clone();
                c.sink = range::Sink::Vec;
                out.push(Trace::Range(c));
            }
            if t.source != range::Source::CursorVec {
                let mut c = t.clone();
                c.source = range::Source::CursorVec;
                out.push(Trace::Range(c));
            }
            if !t.prefix.is_empty() {
                let mut c = t.clone();
                c.prefix.clear();
                out.push(Trace::Range(c));
            }
            if t.seeks.len() > 1 {
                for i in 0..t.seeks.len() {
                    let mut c = t.clone();
                    c.seeks.remove(i);
                    out.push(Trace::Range(c));
                }
            }
            match &t.suffix {
                range::Suffix::None => {}
                range::Suffix::Ones(n) if *n > 1 => {
                    let mut c = t.clone();
                    c.suffix = range::Suffix::Ones(n / 2);
                    out.push(Trace::Range(c));
                }
                range::Suffix::Ones(_) => {}
                _ => {
                    let mut c = t.clone();
                    c.suffix = range::Suffix::Ones(4);
                    out.push(Trace::Range(c));
                    let mut c = t.clone();
                    c.suffix = range::Suffix::None;
                    out.push(Trace::Range(c));
                }
            }
            for (i, op) in t.ops.iter().enumerate() {
                if let range::RangeOp::EncBatch { items, .. } = op {
                    let mut c = t.clone();
                    let singles: Vec<range::RangeOp> = items.iter().map(|(s, m)| range::RangeOp::Enc { sym: *s, m: *m }).collect();
                    c.ops.splice(i..i + 1, singles);
                    out.push(Trace::Range(c));
                }
            }
        }
        Trace::Ans(t) => {
            if t.backend != ans::Backend::Vec {
                let mut c = t.clone();
                c.backend = ans::Backend::Vec;
                out.push(Trace::Ans(c));
            }
            match &t.init {
                ans::Init::Empty => {}
                ans::Init::Binary(ws) | ans::Init::Compressed(ws) => {
                    let mut c = t.clone();
                    c.init = ans::Init::Empty;
                    out.push(Trace::Ans(c));
                    if ws.len() > 1 {
                        for cut in [ws.len() / 2, ws.len() - 1] {
                            let mut c = t.clone();
                            let v = ws[ws.len() - cut..].to_vec();
                            c.init = if matches!(t.init, ans::Init::Binary(_)) { ans::Init::Binary(v) } else { ans::Init::Compressed(v) };
                            out.push(Trace::Ans(c));
                        }
                    }
                }
            }
            // batch -> loop form, inspections with n -> 0
            for (i, op) in t.ops.iter().enumerate() {
                match op {
                    ans::AnsOp::Inspect { view, n } if *n > 0 => {
                        let mut c = t.clone();
                        c.ops[i] = ans::AnsOp::Inspect { view: *view, n: 0 };
                        out.push(Trace::Ans(c));
                    }
                    ans::AnsOp::EncBatch { items, .. } if items.len() > 1 => {
                        let mut c = t.clone();
                        let singles: Vec<ans::AnsOp> = items.iter().map(|(s, m)| ans::AnsOp::Enc { sym: *s, m: *m }).collect();
                        c.ops.splice(i..i + 1, singles);
                        out.push(Trace::Ans(c));
                    }
                    _ => {}
                }
            }
        }
    }
    out
}

pub fn meta(prop: &str) -> Meta {
    let worlds = worlds_for(prop).to_vec();
    Meta {
        worlds,
        rule: "each run: seed -> explicit trace (configuration, model specs, operation list, fault placements) -> deterministic executor against the real library with reference models as oracles; a run is non-trivial if its trace has >= 2 operations; distinct = distinct trace hash (the set is capped at 150k per worker process, so the number is a conservative under-count for big batches)".to_string(),
        state_measure: {
            let mut parts: Vec<&str> = Vec::new();
            for wd in worlds_for(prop) {
                let s = match *wd {
                    "ans" => "ans: (bit length of the coder head, bulk empty?, kind of last operation, (Word,State) configuration, min(LIFO depth, 8))",
                    "range" => "range: (min(num_inverted, 4), bit length of range, top two bits of lower's most significant word, (Word,State) configuration)",
                    "bits" => "bits: (bit length mod 2*WordBits, word type, stack/queue)",
                    "backend" => "backend: (min(pos, 6), min(len - pos, 6), word type, object kind incl. reversed or not)",
                    "chain" => "chain: ((Word,State) configuration, initial precision, min(symbols decoded, 20), min(precision changes, 4))",
                    "skew" => "skew: (producer, twin and consumer representation, configuration, precision)",
                    "garbage" => "garbage: (configuration, coder kind, data origin / fault kind, min(data length, 12))",
                    "poison" => "poison: (no state measure; fault kinds are counted)",
                    "diag" => "diag: ((Probability, PRECISION) pair, model kind, min(support size, 40))",
                    _ => "",
                };
                if !s.is_empty() && !parts.contains(&s) {
                    parts.push(s);
                }
            }
            format!("distinct hashes of the per-world abstract state after every operation - {}", parts.join("; "))
        },
        stubs: vec!["Store (simulator-owned word store behind the public backend traits)", "TableModel / FnModel / Dyn (harness entropy models behind the public model traits)"],
        assumptions: vec![
            "entropy models handed to the coders are well-formed: TableModel is correct by construction; library-built models are taken as they are (their validity is property C03, not decided here)".to_string(),
            "runs are samples: a clean batch is evidence, not proof".to_string(),
        ],
    }
}
