//! Runner: seeded batches in worker child processes, minimisation, replay, evidence.

use std::collections::BTreeMap;
use std::io::Write;
use std::path::{Path, PathBuf};
use std::process::{Command, Stdio};
use std::time::Instant;

use serde::{Deserialize, Serialize};

use crate::common::*;
use crate::rng::run_seed;
use crate::worlds::{self, Trace};

#[derive(Clone, Debug, Serialize, Deserialize)]
pub struct ReplayFile {
    pub property: String,
    pub verif_seed: u64,
    pub run_index: u64,
    pub tier: String,
    pub class: String,
    pub violation: Violation,
    pub minimised: bool,
    pub original_ops: usize,
    pub trace: Trace,
}

#[derive(Clone, Debug, Serialize, Deserialize, Default)]
pub struct WorkerOut {
    pub stats: Stats,
    pub runs: u64,
    pub violations: Vec<(u64, Violation)>,
    pub samples: Vec<serde_json::Value>,
    pub harness_errors: Vec<String>,
}

pub struct PropCfg {
    pub id: &'static str,
    pub quick_runs: u64,
    pub thorough_runs: u64,
}

pub fn verif_root() -> PathBuf {
    std::env::var("VERIF_ROOT").map(PathBuf::from).unwrap_or_else(|_| PathBuf::from("/verif"))
}

fn panic_message(e: &(dyn std::any::Any + Send)) -> String {
    if let Some(s) = e.downcast_ref::<&str>() {
        s.to_string()
    } else if let Some(s) = e.downcast_ref::<String>() {
        s.clone()
    } else {
        "<non-string panic payload>".to_string()
    }
}

/// Execute one trace for `prop`.  Ordinary panics are caught and classified.
pub fn run_trace(prop: &str, trace: &Trace, stats: &mut Stats) -> Result<(), Violation> {
    let mut ctx = Ctx { prop, stats, op: 0 };
    let r = std::panic::catch_unwind(std::panic::AssertUnwindSafe(|| worlds::exec(trace, &mut ctx)));
    let op = ctx.op;
    match r {
        Ok(Err(v)) if prop == "C20" && !matches!(trace, Trace::Poison(_)) && v.prop != "HARNESS" && !v.tag.starts_with("panic") => {
            // a functional verdict of another property's oracle: not undefined behaviour
            stats.hit("foreign-verdict-ignored");
            Ok(())
        }
        Ok(r) => r,
        Err(e) => {
            let msg = panic_message(&*e);
            if msg.starts_with("harness:") {
                Err(Violation::new("HARNESS", "harness-panic", op, msg))
            } else {
                let tag = if msg.contains("overflow") {
                    "panic-arithmetic-overflow"
                } else if msg.contains("unsafe precondition") {
                    "panic-unsafe-precondition"
                } else {
                    "panic"
                };
                if prop == "C20" && tag == "panic" {
                    // C20: an ordinary panic is an allowed failure form
                    stats.hit("allowed-panic-in-explorer");
                    return Ok(());
                }
                Err(Violation::new(prop, tag, op, msg))
            }
        }
    }
}

pub fn trace_hash(t: &Trace) -> u64 {
    let s = serde_json::to_string(t).expect("serialisable");
    crate::rng::hash_str(&s)
}

/// the body of a worker process
pub fn worker(prop: &str, seed: u64, from: u64, to: u64, thorough: bool, progress: bool) -> WorkerOut {
    crate::quiet_panics();
    let mut out = WorkerOut::default();
    for i in from..to {
        if progress {
            println!("PROGRESS {}", i);
            let _ = std::io::stdout().flush();
        }
        let rs = run_seed(seed, prop, i);
        let trace = match std::panic::catch_unwind(|| worlds::generate(prop, rs, i, thorough)) {
            Ok(t) => t,
            Err(e) => {
                // a generator that panics inside library code (it builds models) is itself a
                // finding for the property being explored; record and move on
                let msg = panic_message(&*e);
                out.harness_errors.push(format!("generator panic at run {}: {}", i, msg));
                continue;
            }
        };
        out.runs += 1;
        let n_ops = worlds::ops_len(&trace);
        if n_ops >= 2 && out.stats.nontrivial.len() < 150_000 {
            // (capped per worker: distinct_nontrivial is then a conservative under-count)
            out.stats.nontrivial.insert(trace_hash(&trace));
        }
        if out.samples.len() < 2 && n_ops >= 3 && n_ops <= 14 {
            out.samples.push(serde_json::to_value(&trace).unwrap());
        }
        if cfg!(miri) && n_ops > 300 {
            // the interpreter is ~1000x slower: very long histories are left to the native tier
            out.stats.hit("miri-skipped-long-run");
            continue;
        }
        match run_trace(prop, &trace, &mut out.stats) {
            Ok(()) => {}
            Err(v) => {
                if v.prop == "HARNESS" {
                    out.harness_errors.push(format!("run {}: {}", i, v.detail));
                } else if out.violations.len() < 20 {
                    out.violations.push((i, v));
                }
            }
        }
    }
    out
}


// ---------------------------------------------------------------------------------------
// child processes with a wall-clock limit.  The limit never decides a verdict on its own: a
// run that exceeds it is localised (progress mode) and re-executed alone in a fresh process;
// only if that one times out again is it reported (class .../process-died, status "timeout").

static TMP_COUNTER: std::sync::atomic::AtomicUsize = std::sync::atomic::AtomicUsize::new(0);

fn tmp_path(tag: &str) -> PathBuf {
    let dir = verif_root().join("sim").join("target").join("simtmp");
    let _ = std::fs::create_dir_all(&dir);
    let n = TMP_COUNTER.fetch_add(1, std::sync::atomic::Ordering::SeqCst);
    dir.join(format!("{}-{}-{}.out", tag, std::process::id(), n))
}

pub fn worker_timeout(thorough: bool) -> std::time::Duration {
    let secs = std::env::var("SIMCHECK_TIMEOUT").ok().and_then(|s| s.parse::<u64>().ok()).unwrap_or(if thorough { 1800 } else { 150 });
    std::time::Duration::from_secs(secs)
}

pub struct Finished {
    /// None = killed after the time limit
    pub status: Option<std::process::ExitStatus>,
    pub stdout: String,
}

struct Running {
    child: std::process::Child,
    out: PathBuf,
    deadline: Instant,
}

fn start(args: &[&str], stdin: Option<&str>, limit: std::time::Duration) -> Running {
    let out = tmp_path("w");
    let f = std::fs::File::create(&out).expect("create temp output");
    let mut cmd = Command::new(self_exe());
    cmd.args(args).stdout(Stdio::from(f)).stderr(Stdio::null());
    if stdin.is_some() {
        cmd.stdin(Stdio::piped());
    }
    let mut child = cmd.spawn().expect("spawn child");
    if let Some(data) = stdin {
        let mut si = child.stdin.take().unwrap();
        let _ = si.write_all(data.as_bytes());
    }
    Running { child, out, deadline: Instant::now() + limit }
}

fn finish(mut r: Running) -> Finished {
    let status = loop {
        match r.child.try_wait() {
            Ok(Some(st)) => break Some(st),
            Ok(None) => {
                if Instant::now() >= r.deadline {
                    let _ = r.child.kill();
                    let _ = r.child.wait();
                    break None;
                }
                std::thread::sleep(std::time::Duration::from_millis(5));
            }
            Err(_) => break None,
        }
    };
    let stdout = std::fs::read_to_string(&r.out).unwrap_or_default();
    let _ = std::fs::remove_file(&r.out);
    Finished { status, stdout }
}

fn run_limited(args: &[&str], stdin: Option<&str>, limit: std::time::Duration) -> Finished {
    finish(start(args, stdin, limit))
}

/// The parent process never runs generators itself: some generators execute library code
/// (look-ahead on the real encoder, bits-back traces), which may hang or abort under a broken
/// library.  The trace is printed by a child; if that fails, a `Regenerate` trace stands in
/// (replaying it regenerates and executes the run inside the replay child).
pub fn generate_in_child(prop: &str, seed: u64, index: u64, thorough: bool) -> Trace {
    let limit = std::time::Duration::from_secs(std::env::var("SIMCHECK_RUN_TIMEOUT").ok().and_then(|s| s.parse::<u64>().ok()).unwrap_or(60));
    let f = run_limited(&["gen", prop, &index.to_string(), if thorough { "thorough" } else { "quick" }, &seed.to_string()], None, limit);
    if f.status.map_or(false, |s| s.success()) {
        if let Ok(t) = serde_json::from_str::<Trace>(&f.stdout) {
            return t;
        }
    }
    Trace::Regenerate { prop: prop.to_string(), verif_seed: seed, index, thorough }
}

fn self_exe() -> PathBuf {
    std::env::current_exe().expect("current_exe")
}

struct Spawned {
    from: u64,
    to: u64,
    child: Running,
}

/// Result of a child process that died.
pub struct Death {
    pub index: u64,
    pub status: String,
}

fn find_dead_index(prop: &str, seed: u64, from: u64, to: u64, thorough: bool) -> Option<Death> {
    let tier = if thorough { "thorough" } else { "quick" };
    let f = run_limited(&["worker", prop, &seed.to_string(), &from.to_string(), &to.to_string(), tier, "progress"], None, worker_timeout(thorough));
    if f.status.map_or(false, |s| s.success()) {
        return None;
    }
    let last = f.stdout.lines().filter_map(|l| l.strip_prefix("PROGRESS ")).filter_map(|s| s.trim().parse::<u64>().ok()).last()?;
    if f.status.is_none() {
        // localising a hang costs two full time limits: one is enough, the check fails anyway
        DEATHS.store(MAX_DEATHS, std::sync::atomic::Ordering::SeqCst);
    }
    Some(Death { index: last, status: match f.status { Some(st) => format!("{}", st), None => "timeout".to_string() } })
}

/// process deaths are expensive to localise; after a few of them the rest of the affected
/// ranges is not explored any further (the check fails anyway)
static DEATHS: std::sync::atomic::AtomicUsize = std::sync::atomic::AtomicUsize::new(0);
const MAX_DEATHS: usize = 4;

pub struct BatchResult {
    pub out: WorkerOut,
    pub deaths: Vec<Death>,
    pub wall_s: f64,
}

pub fn run_batch(prop: &str, seed: u64, runs: u64, thorough: bool, jobs: usize) -> BatchResult {
    let t0 = Instant::now();
    let chunk = ((runs + jobs as u64 - 1) / jobs as u64).max(1);
    let mut children = Vec::new();
    let mut from = 0;
    while from < runs {
        let to = (from + chunk).min(runs);
        let child = start(&["worker", prop, &seed.to_string(), &from.to_string(), &to.to_string(), if thorough { "thorough" } else { "quick" }], None, worker_timeout(thorough));
        children.push(Spawned { from, to, child });
        from = to;
    }
    let mut total = WorkerOut::default();
    let mut deaths = Vec::new();
    for sp in children {
        let o = finish(sp.child);
        let parsed = o.stdout.lines().rev().find_map(|l| l.strip_prefix("RESULT ")).and_then(|j| serde_json::from_str::<WorkerOut>(j).ok());
        match (o.status.map_or(false, |s| s.success()), parsed) {
            (true, Some(w)) => {
                total.stats.merge(&w.stats);
                total.runs += w.runs;
                total.violations.extend(w.violations);
                for s in w.samples {
                    if total.samples.len() < 3 {
                        total.samples.push(s);
                    }
                }
                total.harness_errors.extend(w.harness_errors);
            }
            _ => {
                // worker died (UB-check abort, fatal signal, ...): find the run
                if DEATHS.fetch_add(1, std::sync::atomic::Ordering::SeqCst) >= MAX_DEATHS {
                    total.stats.hit("exploration-truncated-after-process-deaths");
                    continue;
                }
                match find_dead_index(prop, seed, sp.from, sp.to, thorough) {
                    Some(d) => {
                        // everything before and after the dead run still has to be explored
                        for (a, b) in [(sp.from, d.index), (d.index + 1, sp.to)] {
                            if a < b {
                                let sub = run_range(prop, seed, a, b, thorough);
                                total.stats.merge(&sub.out.stats);
                                total.runs += sub.out.runs;
                                total.violations.extend(sub.out.violations);
                                total.harness_errors.extend(sub.out.harness_errors);
                                deaths.extend(sub.deaths);
                            }
                        }
                        deaths.push(d);
                    }
                    None => total.harness_errors.push(format!("worker {}..{} failed ({:?}) but the failure did not reproduce", sp.from, sp.to, o.status)),
                }
            }
        }
    }
    total.violations.sort_by_key(|(i, _)| *i);
    BatchResult { out: total, deaths, wall_s: t0.elapsed().as_secs_f64() }
}

/// run one contiguous index range in a single child (used after a death)
fn run_range(prop: &str, seed: u64, from: u64, to: u64, thorough: bool) -> BatchResult {
    let t0 = Instant::now();
    let o = run_limited(&["worker", prop, &seed.to_string(), &from.to_string(), &to.to_string(), if thorough { "thorough" } else { "quick" }], None, worker_timeout(thorough));
    let parsed = o.stdout.lines().rev().find_map(|l| l.strip_prefix("RESULT ")).and_then(|j| serde_json::from_str::<WorkerOut>(j).ok());
    let mut res = BatchResult { out: WorkerOut::default(), deaths: Vec::new(), wall_s: 0.0 };
    match (o.status.map_or(false, |s| s.success()), parsed) {
        (true, Some(w)) => res.out = w,
        _ if DEATHS.fetch_add(1, std::sync::atomic::Ordering::SeqCst) >= MAX_DEATHS => {
            res.out.stats.hit("exploration-truncated-after-process-deaths");
        }
        _ => match find_dead_index(prop, seed, from, to, thorough) {
            Some(d) => {
                for (a, b) in [(from, d.index), (d.index + 1, to)] {
                    if a < b {
                        let sub = run_range(prop, seed, a, b, thorough);
                        res.out.stats.merge(&sub.out.stats);
                        res.out.runs += sub.out.runs;
                        res.out.violations.extend(sub.out.violations);
                        res.out.harness_errors.extend(sub.out.harness_errors);
                        res.deaths.extend(sub.deaths);
                    }
                }
                res.deaths.push(d);
            }
            None => res.out.harness_errors.push(format!("worker {}..{} failed but did not reproduce", from, to)),
        },
    }
    res.wall_s = t0.elapsed().as_secs_f64();
    res
}

/// Execute a trace in a fresh child process; returns the verdict.
#[derive(Clone, Debug, PartialEq)]
pub enum Verdict {
    Held,
    Violated(Violation),
    Died(String),
    HarnessError(String),
}

pub fn exec_in_child(prop: &str, trace: &Trace) -> Verdict {
    let limit = std::time::Duration::from_secs(std::env::var("SIMCHECK_RUN_TIMEOUT").ok().and_then(|s| s.parse::<u64>().ok()).unwrap_or(60));
    let o = run_limited(&["exec-stdin", prop], Some(&serde_json::to_string(trace).unwrap()), limit);
    let text = o.stdout;
    let Some(status) = o.status else { return Verdict::Died("timeout".to_string()) };
    if !status.success() && !text.contains("VERDICT ") {
        return Verdict::Died(format!("{}", status));
    }
    match text.lines().rev().find_map(|l| l.strip_prefix("VERDICT ")) {
        Some("held") => Verdict::Held,
        Some(j) => match serde_json::from_str::<Violation>(j) {
            Ok(v) if v.prop == "HARNESS" => Verdict::HarnessError(v.detail),
            Ok(v) => Verdict::Violated(v),
            Err(e) => Verdict::HarnessError(format!("unparsable verdict: {}", e)),
        },
        None => Verdict::Died(format!("{}", status)),
    }
}

fn same_class(prop: &str, v: &Verdict, class: &str) -> bool {
    match v {
        Verdict::Violated(x) => x.prop == prop && x.class() == class,
        Verdict::Died(_) => class.ends_with("/process-died"),
        _ => false,
    }
}

/// delta debugging over the op list + world-specific simplifications
pub fn minimise(prop: &str, trace: &Trace, class: &str, in_process: bool, budget: usize) -> Trace {
    // SIMCHECK_NO_MINIMISE=1: report unminimised traces (used by bulk evaluations of seeded changes)
    let budget = if std::env::var("SIMCHECK_NO_MINIMISE").is_ok() { 0 } else { budget };
    let mut best = trace.clone();
    let mut spent = 0usize;
    let mut test = |t: &Trace, spent: &mut usize| -> bool {
        *spent += 1;
        if in_process {
            let mut st = Stats::default();
            match run_trace(prop, t, &mut st) {
                Err(v) => v.prop == prop && v.class() == class,
                Ok(()) => false,
            }
        } else {
            same_class(prop, &exec_in_child(prop, t), class)
        }
    };
    loop {
        let mut improved = false;
        // 1. drop chunks of ops
        let mut n = worlds::ops_len(&best);
        let mut chunk = (n / 2).max(1);
        while chunk >= 1 && spent < budget {
            let mut start = 0;
            while start < n && spent < budget {
                let end = (start + chunk).min(n);
                let cand = worlds::without_ops(&best, start, end);
                if worlds::ops_len(&cand) < n && test(&cand, &mut spent) {
                    best = cand;
                    n = worlds::ops_len(&best);
                    improved = true;
                } else {
                    start = end;
                }
            }
            if chunk == 1 {
                break;
            }
            chunk /= 2;
        }
        // 2. world-specific simplifications
        for cand in worlds::simplifications(&best) {
            if spent >= budget {
                break;
            }
            if test(&cand, &mut spent) {
                best = cand;
                improved = true;
            }
        }
        if !improved || spent >= budget {
            break;
        }
    }
    best
}

pub fn write_replay(rf: &ReplayFile) -> PathBuf {
    let dir = verif_root().join("replay");
    let _ = std::fs::create_dir_all(&dir);
    let path = dir.join(format!("{}-seed{}-run{}.json", rf.property, rf.verif_seed, rf.run_index));
    std::fs::write(&path, serde_json::to_string_pretty(rf).unwrap()).expect("write replay");
    path
}

/// `simcheck replay <file>`: re-execute in a fresh child; exit 1 + VIOLATION if it reproduces
pub fn replay(path: &Path) -> i32 {
    let text = match std::fs::read_to_string(path) {
        Ok(t) => t,
        Err(e) => {
            eprintln!("cannot read {}: {}", path.display(), e);
            return 2;
        }
    };
    let rf: ReplayFile = match serde_json::from_str(&text) {
        Ok(r) => r,
        Err(e) => {
            eprintln!("cannot parse {}: {}", path.display(), e);
            return 2;
        }
    };
    match exec_in_child(&rf.property, &rf.trace) {
        Verdict::Held => {
            println!("replay: property {} held on {}", rf.property, path.display());
            0
        }
        Verdict::Violated(v) => {
            println!("replay: {} at op {}: {}", v.class(), v.op, v.detail);
            let same = v.class() == rf.class && v.op == rf.violation.op;
            println!("replay: same class and op as recorded: {}", same);
            println!("VIOLATION property={} replay={}", rf.property, path.display());
            1
        }
        Verdict::Died(s) => {
            println!("replay: process died ({})", s);
            println!("VIOLATION property={} replay={}", rf.property, path.display());
            1
        }
        Verdict::HarnessError(e) => {
            eprintln!("harness error: {}", e);
            2
        }
    }
}


/// Thorough tier of C20: the same worker under Miri (no child processes inside Miri; the
/// index ranges are distributed over several `cargo miri run` processes).
pub fn miri_tier(prop: &str, seed: u64, from: u64, runs: u64, jobs: usize) -> (u64, Vec<(u64, String)>, Vec<String>) {
    let sim_dir = verif_root().join("sim");
    let chunk = ((runs + jobs as u64 - 1) / jobs as u64).max(1);
    // build once (sequentially) so that the parallel runs do not fight over the build lock
    let build = Command::new("cargo")
        .args(["+nightly", "miri", "run", "--offline", "--", "worker", prop, &seed.to_string(), "0", "0", "quick"])
        .current_dir(&sim_dir)
        .env("MIRIFLAGS", "-Zmiri-disable-isolation")
        .env("CARGO_NET_OFFLINE", "true")
        .output();
    let mut errors = Vec::new();
    match build {
        Ok(o) if o.status.success() => {}
        Ok(o) => {
            errors.push(format!("miri build/run failed: {}", String::from_utf8_lossy(&o.stderr).lines().rev().take(5).collect::<Vec<_>>().join(" | ")));
            return (0, Vec::new(), errors);
        }
        Err(e) => {
            errors.push(format!("cannot start cargo miri: {}", e));
            return (0, Vec::new(), errors);
        }
    }
    let mut children = Vec::new();
    let mut a = from;
    while a < from + runs {
        let b = (a + chunk).min(from + runs);
        let child = Command::new("cargo")
            .args(["+nightly", "miri", "run", "--offline", "--", "worker", prop, &seed.to_string(), &a.to_string(), &b.to_string(), "quick", "progress"])
            .current_dir(&sim_dir)
            .env("MIRIFLAGS", "-Zmiri-disable-isolation")
            .env("CARGO_NET_OFFLINE", "true")
            .stdout(Stdio::piped())
            .stderr(Stdio::piped())
            .spawn();
        match child {
            Ok(c) => children.push((a, b, c)),
            Err(e) => errors.push(format!("cannot start cargo miri: {}", e)),
        }
        a = b;
    }
    let mut done = 0u64;
    let mut ub = Vec::new();
    for (a, b, c) in children {
        let o = match c.wait_with_output() {
            Ok(o) => o,
            Err(e) => {
                errors.push(format!("miri wait: {}", e));
                continue;
            }
        };
        let out = String::from_utf8_lossy(&o.stdout);
        let err = String::from_utf8_lossy(&o.stderr);
        let last = out.lines().filter_map(|l| l.strip_prefix("PROGRESS ")).filter_map(|s| s.trim().parse::<u64>().ok()).last();
        if o.status.success() && out.contains("RESULT ") {
            done += b - a;
            // ordinary violations found by the worker are reported by the native tier already
        } else if err.contains("Undefined Behavior") || err.contains("error: unsupported operation") == false && !o.status.success() {
            let msg = err.lines().find(|l| l.contains("Undefined Behavior") || l.starts_with("error")).unwrap_or("miri reported an error").to_string();
            match last {
                Some(i) => {
                    done += i - a;
                    ub.push((i, msg));
                }
                None => errors.push(format!("miri failed before the first run of {}..{}: {}", a, b, msg)),
            }
        } else {
            errors.push(format!("miri run {}..{} failed: {}", a, b, err.lines().rev().take(3).collect::<Vec<_>>().join(" | ")));
        }
    }
    (done, ub, errors)
}

// ---------------------------------------------------------------------------------------
// known findings

#[derive(Clone, Debug, Serialize, Deserialize)]
pub struct KnownFinding {
    pub property: String,
    /// "known" (recorded, not repaired) or "fixed" (repaired by a fix: commit; suppresses nothing)
    pub status: String,
    /// violation class (prop/tag) this entry refers to
    pub class: String,
    /// all of these substrings must occur in the violation detail / trace JSON for a match
    #[serde(default)]
    pub match_all: Vec<String>,
    pub what: String,
    #[serde(default)]
    pub commit: Option<String>,
}

pub fn load_known() -> Vec<KnownFinding> {
    let p = verif_root().join("known_findings.json");
    match std::fs::read_to_string(&p) {
        Ok(t) => serde_json::from_str(&t).unwrap_or_else(|e| {
            eprintln!("harness: cannot parse known_findings.json: {}", e);
            std::process::exit(2)
        }),
        Err(_) => Vec::new(),
    }
}

fn matches_known<'a>(known: &'a [KnownFinding], prop: &str, v: &Violation, trace: &Trace) -> Option<&'a KnownFinding> {
    let hay = format!("{} {}", v.detail, serde_json::to_string(trace).unwrap());
    known.iter().find(|k| k.status == "known" && k.property == prop && k.class == v.class() && k.match_all.iter().all(|m| hay.contains(m)))
}

// ---------------------------------------------------------------------------------------
// the check driver

pub struct CheckOpts {
    pub prop: String,
    pub thorough: bool,
    pub seed: u64,
    pub runs: u64,
    pub jobs: usize,
    pub level: String,
    pub miri_runs: u64,
}

pub fn check(opts: &CheckOpts) -> i32 {
    let prop = opts.prop.as_str();
    let t0 = Instant::now();
    crate::quiet_panics();
    println!("simcheck: property={} tier={} VERIF_SEED={} runs={} jobs={}", prop, if opts.thorough { "thorough" } else { "quick" }, opts.seed, opts.runs, opts.jobs);
    let res = run_batch(prop, opts.seed, opts.runs, opts.thorough, opts.jobs);
    let known = load_known();
    let mut exit = 0;
    let mut reported = 0usize;
    let mut known_hits: BTreeMap<String, u64> = BTreeMap::new();
    if !res.out.harness_errors.is_empty() {
        for e in res.out.harness_errors.iter().take(5) {
            eprintln!("HARNESS-ERROR: {}", e);
        }
        exit = 2;
    }
    // group violations by class; minimise and report the first of each class
    let mut by_class: BTreeMap<String, Vec<(u64, Violation)>> = BTreeMap::new();
    for (i, v) in res.out.violations.iter() {
        by_class.entry(v.class()).or_default().push((*i, v.clone()));
    }
    let mut unknown_violations = 0u64;
    for (class, list) in by_class.iter() {
        let mut shown = false;
        for (i, v) in list.iter() {
            let trace = generate_in_child(prop, opts.seed, *i, opts.thorough);
            if let Some(k) = matches_known(&known, prop, v, &trace) {
                *known_hits.entry(k.what.clone()).or_insert(0) += 1;
                continue;
            }
            unknown_violations += 1;
            if shown || reported >= 6 {
                continue;
            }
            shown = true;
            let in_process = !class.ends_with("/process-died");
            let original_ops = worlds::ops_len(&trace);
            let min = minimise(prop, &trace, class, in_process, 1500);
            // the minimised trace must still not be a known finding, and must reproduce in a
            // fresh process
            let verdict = exec_in_child(prop, &min);
            let (final_trace, final_v, minimised) = match &verdict {
                Verdict::Violated(v2) if v2.class() == *class => (min, v2.clone(), true),
                _ => (trace.clone(), v.clone(), false),
            };
            if !minimised {
                // fall back to the unminimised trace; confirm it in a fresh process
                match exec_in_child(prop, &final_trace) {
                    Verdict::Violated(_) | Verdict::Died(_) => {}
                    other => {
                        eprintln!("HARNESS-ERROR: violation {} at run {} did not reproduce in a fresh process: {:?}", class, i, other);
                        exit = 2;
                        continue;
                    }
                }
            }
            if let Some(k) = matches_known(&known, prop, &final_v, &final_trace) {
                *known_hits.entry(k.what.clone()).or_insert(0) += 1;
                unknown_violations -= 1;
                shown = false;
                continue;
            }
            let rf = ReplayFile {
                property: prop.to_string(),
                verif_seed: opts.seed,
                run_index: *i,
                tier: if opts.thorough { "thorough".into() } else { "quick".into() },
                class: class.clone(),
                violation: final_v.clone(),
                minimised,
                original_ops,
                trace: final_trace,
            };
            let path = write_replay(&rf);
            println!("violation class {} (run {}, {} -> {} ops): op {}: {}", class, i, original_ops, worlds::ops_len(&rf.trace), final_v.op, final_v.detail);
            println!("VIOLATION property={} replay={}", prop, path.display());
            reported += 1;
            exit = exit.max(1);
        }
    }
    for d in res.deaths.iter() {
        let trace = generate_in_child(prop, opts.seed, d.index, opts.thorough);
        if d.status == "timeout" {
            // wall-clock alone decides nothing: the run must exceed the limit again, alone
            match exec_in_child(prop, &trace) {
                Verdict::Died(s) if s == "timeout" => {}
                other => {
                    eprintln!("HARNESS-ERROR: run {} exceeded the time limit in a batch but not alone ({:?}); not reported", d.index, other);
                    exit = exit.max(2);
                    continue;
                }
            }
        }
        let class = format!("{}/process-died", prop);
        let v = Violation::new(prop, "process-died", 0, format!("worker process died: {}", d.status));
        if let Some(k) = matches_known(&known, prop, &v, &trace) {
            *known_hits.entry(k.what.clone()).or_insert(0) += 1;
            continue;
        }
        unknown_violations += 1;
        if reported >= 6 {
            continue;
        }
        let original_ops = worlds::ops_len(&trace);
        let min = minimise(prop, &trace, &class, false, if d.status == "timeout" { 6 } else { 300 });
        let rf = ReplayFile {
            property: prop.to_string(),
            verif_seed: opts.seed,
            run_index: d.index,
            tier: if opts.thorough { "thorough".into() } else { "quick".into() },
            class: class.clone(),
            violation: v.clone(),
            minimised: true,
            original_ops,
            trace: min,
        };
        let path = write_replay(&rf);
        println!("violation class {} (run {}): {}", class, d.index, v.detail);
        println!("VIOLATION property={} replay={}", prop, path.display());
        reported += 1;
        exit = exit.max(1);
    }
    let mut miri_runs = 0u64;
    if opts.miri_runs > 0 {
        println!("simcheck: Miri tier: {} runs under cargo +nightly miri ...", opts.miri_runs);
        let (done, ub, errs) = miri_tier(prop, opts.seed, 0, opts.miri_runs, opts.jobs);
        miri_runs = done;
        for e in errs.iter().take(3) {
            eprintln!("HARNESS-ERROR: {}", e);
            exit = exit.max(2);
        }
        for (i, msg) in ub.iter() {
            let trace = generate_in_child(prop, opts.seed, *i, false);
            let v = Violation::new(prop, "miri-undefined-behaviour", 0, msg.clone());
            if let Some(k) = matches_known(&known, prop, &v, &trace) {
                *known_hits.entry(k.what.clone()).or_insert(0) += 1;
                continue;
            }
            unknown_violations += 1;
            let rf = ReplayFile {
                property: prop.to_string(),
                verif_seed: opts.seed,
                run_index: *i,
                tier: "thorough-miri".into(),
                class: v.class(),
                violation: v.clone(),
                minimised: false,
                original_ops: worlds::ops_len(&trace),
                trace,
            };
            let path = write_replay(&rf);
            println!("violation class {} (run {}): {}", v.class(), i, msg);
            println!("VIOLATION property={} replay={}", prop, path.display());
            exit = if exit == 2 { 2 } else { 1 };
        }
    }
    for (what, n) in known_hits.iter() {
        println!("KNOWN-FINDING: property={} {} (matched {} run(s))", prop, what, n);
    }
    let wall = t0.elapsed().as_secs_f64();
    write_evidence(opts, &res, unknown_violations, &known_hits, wall, miri_runs);
    println!(
        "simcheck: property={} runs={} distinct_nontrivial={} states={} violations={} wall={:.1}s runs/hour={:.0}",
        prop,
        res.out.runs,
        res.out.stats.nontrivial.len(),
        res.out.stats.states.len(),
        unknown_violations,
        wall,
        res.out.runs as f64 / res.wall_s.max(1e-9) * 3600.0
    );
    exit
}

fn write_evidence(opts: &CheckOpts, res: &BatchResult, violations: u64, known_hits: &BTreeMap<String, u64>, wall: f64, miri_runs: u64) {
    let st = &res.out.stats;
    let faults: BTreeMap<&String, &u64> = st.counters.iter().filter(|(k, _)| k.starts_with("fault-")).collect();
    let probes: BTreeMap<&String, &u64> = st.counters.iter().filter(|(k, _)| k.starts_with("probe-")).collect();
    let ops: BTreeMap<&String, &u64> = st.counters.iter().filter(|(k, _)| !k.starts_with("probe-") && !k.starts_with("fault-")).collect();
    let events: u64 = st.counters.iter().filter(|(k, _)| k.starts_with("op-") || k.starts_with("inspect-")).map(|(_, v)| *v).sum();
    let meta = worlds::meta(&opts.prop);
    let ev = serde_json::json!({
        "property_id": opts.prop,
        "tier": if opts.thorough { "thorough" } else { "quick" },
        "seed": opts.seed,
        "level": opts.level,
        "wall_s": wall,
        "violations": violations,
        "coverage": {
            "evaluations": res.out.runs.max(1),
            "distinct_nontrivial": st.nontrivial.len().max(0),
            "rule": meta.rule,
            "samples": res.out.samples,
            "simulated_runs": res.out.runs,
            "runs_per_hour": res.out.runs as f64 / res.wall_s.max(1e-9) * 3600.0,
            "seeds": format!("VERIF_SEED={} -> run seeds splitmix(VERIF_SEED, property, 0..{})", opts.seed, opts.runs),
            "simulated_time": "n/a: the system under test has no clock or timer; simulated events (operations applied to coder objects through the seams) are reported instead",
            "simulated_events": events,
            "fault_kinds_fired": faults,
            "rare_condition_probes": probes,
            "operation_counts": ops,
            "distinct_abstract_states": st.states.len(),
            "state_measure": meta.state_measure,
            "worlds": meta.worlds,
            "real_components": ["constriction (all coder, backend and model code under /repo/src, rebuilt from the working tree)", "probability", "smallvec", "num-traits"],
            "stub_components": meta.stubs,
            "known_findings_matched": known_hits,
            "worker_deaths": res.deaths.len(),
            "miri_runs": miri_runs,
            "build_profile": "opt-level=2, debug-assertions=on, overflow-checks=on (std unsafe-precondition checks active inside constriction's generic code)"
        },
        "assumptions": meta.assumptions,
    });
    let dir = verif_root().join("evidence");
    let _ = std::fs::create_dir_all(&dir);
    std::fs::write(dir.join(format!("{}.json", opts.prop)), serde_json::to_string_pretty(&ev).unwrap()).expect("write evidence");
}
