//! World `backend`: the I/O seam itself is the system under test (DESIGN 3: C17).
//! Reference model R-BACKEND = Vec<word> + position (+ capacity).

use constriction::backends::{
    BoundedReadWords, BoundedWriteWords, Cursor, FallibleCallbackWriteWords, FallibleIteratorReadWords,
    InfallibleCallbackWriteWords, ReadWords, Reverse, WriteWords,
};
use constriction::{BitArray, Pos, Queue, Seek, Stack};
use serde::{Deserialize, Serialize};
use smallvec::SmallVec;

use crate::common::*;
use crate::rng::Rng;

#[derive(Clone, Copy, Debug, Serialize, Deserialize, PartialEq, Eq, Hash)]
pub enum Kind {
    Vec,
    Small,
    /// Cursor<_, Vec<_>> (may be toggled into Reverse<Cursor> and back)
    CursorVec,
    /// Cursor<_, Box<[_]>>
    CursorBox,
    /// FallibleIteratorReadWords over `init` (+ error items)
    FallibleIter,
    /// callback writers collecting into a Vec
    Callback,
}

#[derive(Clone, Debug, Serialize, Deserialize, PartialEq)]
pub enum BOp {
    Write(u64),
    Extend(Vec<u64>),
    ReadStack,
    ReadQueue,
    RemainingStack,
    RemainingQueue,
    SpaceLeft,
    MaybeFlags,
    /// remember `pos()` in slot
    Pos,
    /// seek back to remembered position `i`
    SeekBack(usize),
    /// seek to an absolute position (possibly out of range)
    SeekAbs(usize),
    /// into_reversed (cursor kinds): observationally a no-op
    Reverse,
    /// read n words through `as_view()` with queue (true) / stack semantics
    View { queue: bool, n: usize },
    /// write through `as_mut_view()`
    MutViewWrite(u64),
    /// `cloned()` must equal the model
    Cloned,
}

#[derive(Clone, Debug, Serialize, Deserialize, PartialEq)]
pub struct BackendTrace {
    /// 8, 16, 32, 64
    pub word: u8,
    pub kind: Kind,
    pub init: Vec<u64>,
    /// initial position for cursor kinds
    pub pos: usize,
    /// FallibleIter: indices of reads that yield Err
    pub err_at: Vec<usize>,
    /// FallibleIter: the wrapped iterator is *not fused*: it yields a spurious end-of-data at
    /// this item index and would continue afterwards (the adapter must fuse it)
    #[serde(default)]
    pub gap_at: Option<usize>,
    /// FallibleIter: the wrapped iterator gives no size hint
    #[serde(default)]
    pub inexact_hint: bool,
    pub ops: Vec<BOp>,
}

macro_rules! viol {
    ($ctx:expr, $tag:expr, $($fmt:tt)*) => {
        if $ctx.on("C17") {
            return Err(Violation::new("C17", $tag, $ctx.op, format!($($fmt)*)));
        } else {
            return Ok(());
        }
    };
}

pub fn exec(t: &BackendTrace, ctx: &mut Ctx) -> Result<(), Violation> {
    match t.word {
        8 => exec_w::<u8>(t, ctx),
        16 => exec_w::<u16>(t, ctx),
        32 => exec_w::<u32>(t, ctx),
        64 => exec_w::<u64>(t, ctx),
        _ => panic!("harness: bad word size"),
    }
}

enum Obj<W: BitArray> {
    Vec(Vec<W>),
    Small(SmallVec<[W; 4]>),
    Cur(Cursor<W, Vec<W>>),
    Rev(Reverse<Cursor<W, Vec<W>>>),
    CurBox(Cursor<W, Box<[W]>>),
    RevBox(Reverse<Cursor<W, Box<[W]>>>),
}

/// model in the *original* orientation
struct Model {
    buf: Vec<u64>,
    pos: usize,
    /// growable (Vec/SmallVec): pos == buf.len() always
    growable: bool,
}

fn exec_w<W: BitArray + Default>(t: &BackendTrace, ctx: &mut Ctx) -> Result<(), Violation> {
    let init: Vec<W> = t.init.iter().map(|&w| w_from(w)).collect();
    let init64: Vec<u64> = init.iter().map(|&w| w_to(w)).collect();
    match t.kind {
        Kind::FallibleIter => return exec_iter::<W>(t, &init, ctx),
        Kind::Callback => return exec_callback::<W>(t, ctx),
        _ => {}
    }
    let pos0 = t.pos.min(init.len());
    let mut obj: Obj<W> = match t.kind {
        Kind::Vec => Obj::Vec(init.clone()),
        Kind::Small => Obj::Small(SmallVec::from_vec(init.clone())),
        Kind::CursorVec => Obj::Cur(Cursor::new_at_pos(init.clone(), pos0).expect("in range")),
        Kind::CursorBox => Obj::CurBox(Cursor::new_at_pos(init.clone().into_boxed_slice(), pos0).expect("in range")),
        _ => unreachable!(),
    };
    let growable = matches!(t.kind, Kind::Vec | Kind::Small);
    let mut m = Model { buf: init64.clone(), pos: if growable { init64.len() } else { pos0 }, growable };
    // remembered positions: (real position, model snapshot)
    let mut remembered: Vec<(usize, Vec<u64>, usize)> = Vec::new();
    let mut seen_none_stack = false;
    let mut seen_none_queue = false;

    for (i, op) in t.ops.iter().enumerate() {
        ctx.op = i;
        match op {
            BOp::Write(w) => {
                let w64 = w_to(w_from::<W>(*w));
                let word: W = w_from(*w);
                let res: Result<(), String> = match &mut obj {
                    Obj::Vec(v) => v.write(word).map_err(|e| format!("{:?}", e)),
                    Obj::Small(v) => v.write(word).map_err(|e| format!("{:?}", e)),
                    Obj::Cur(c) => c.write(word).map_err(|e| format!("{:?}", e)),
                    Obj::Rev(c) => c.write(word).map_err(|e| format!("{:?}", e)),
                    Obj::CurBox(c) => c.write(word).map_err(|e| format!("{:?}", e)),
                    Obj::RevBox(c) => c.write(word).map_err(|e| format!("{:?}", e)),
                };
                ctx.stats.hit("op-write");
                seen_none_stack = false;
                seen_none_queue = false;
                let want_ok = m.growable || m.pos < m.buf.len();
                if want_ok {
                    if m.growable { m.buf.push(w64); m.pos = m.buf.len(); } else { m.buf[m.pos] = w64; m.pos += 1; }
                } else {
                    ctx.stats.hit("fault-sink-full");
                }
                if res.is_ok() != want_ok {
                    viol!(ctx, "write-result", "write -> {:?} but model says {} (pos {} of {})", res, if want_ok { "room" } else { "full" }, m.pos, m.buf.len());
                }
                if let Err(e) = &res {
                    if e != "OutOfSpace" {
                        viol!(ctx, "write-error-kind", "unexpected error {:?}", e);
                    }
                }
            }
            BOp::Extend(ws) => {
                let words: Vec<W> = ws.iter().map(|&w| w_from(w)).collect();
                let res: Result<(), String> = match &mut obj {
                    Obj::Vec(v) => v.extend_from_iter(words.iter().cloned()).map_err(|e| format!("{:?}", e)),
                    Obj::Small(v) => v.extend_from_iter(words.iter().cloned()).map_err(|e| format!("{:?}", e)),
                    Obj::Cur(c) => c.extend_from_iter(words.iter().cloned()).map_err(|e| format!("{:?}", e)),
                    Obj::Rev(c) => c.extend_from_iter(words.iter().cloned()).map_err(|e| format!("{:?}", e)),
                    Obj::CurBox(c) => c.extend_from_iter(words.iter().cloned()).map_err(|e| format!("{:?}", e)),
                    Obj::RevBox(c) => c.extend_from_iter(words.iter().cloned()).map_err(|e| format!("{:?}", e)),
                };
                ctx.stats.hit("op-extend");
                seen_none_stack = false;
                seen_none_queue = false;
                // model: word by word until full
                let mut want_ok = true;
                for w in &words {
                    let w64 = w_to(*w);
                    if m.growable { m.buf.push(w64); m.pos = m.buf.len(); }
                    else if m.pos < m.buf.len() { m.buf[m.pos] = w64; m.pos += 1; }
                    else { want_ok = false; break; }
                }
                if res.is_ok() != want_ok {
                    viol!(ctx, "extend-result", "extend_from_iter -> {:?}, model ok={}", res, want_ok);
                }
            }
            BOp::ReadStack => {
                let got: Option<u64> = match &mut obj {
                    Obj::Vec(v) => ReadWords::<W, Stack>::read(v).unwrap().map(w_to),
                    Obj::Small(v) => ReadWords::<W, Stack>::read(v).unwrap().map(w_to),
                    Obj::Cur(c) => ReadWords::<W, Stack>::read(c).unwrap().map(w_to),
                    Obj::Rev(c) => ReadWords::<W, Stack>::read(c).unwrap().map(w_to),
                    Obj::CurBox(c) => ReadWords::<W, Stack>::read(c).unwrap().map(w_to),
                    Obj::RevBox(c) => ReadWords::<W, Stack>::read(c).unwrap().map(w_to),
                };
                ctx.stats.hit("op-read-stack");
                let want = if m.pos == 0 { None } else {
                    m.pos -= 1;
                    let w = m.buf[m.pos];
                    if m.growable { m.buf.pop(); }
                    Some(w)
                };
                if got != want {
                    viol!(ctx, "read-stack", "read (stack) -> {:x?}, model {:x?}", got, want);
                }
                if seen_none_stack && got.is_some() {
                    viol!(ctx, "read-after-end", "a read succeeded after end-of-data was reported");
                }
                // a stack read moves the position: a later queue read may legitimately succeed
                seen_none_queue = false;
                if got.is_none() { seen_none_stack = true; ctx.stats.hit("probe-end-of-data"); }
            }
            BOp::ReadQueue => {
                let got: Option<Option<u64>> = match &mut obj {
                    Obj::Cur(c) => Some(ReadWords::<W, Queue>::read(c).unwrap().map(w_to)),
                    Obj::Rev(c) => Some(ReadWords::<W, Queue>::read(c).unwrap().map(w_to)),
                    Obj::CurBox(c) => Some(ReadWords::<W, Queue>::read(c).unwrap().map(w_to)),
                    Obj::RevBox(c) => Some(ReadWords::<W, Queue>::read(c).unwrap().map(w_to)),
                    _ => None,
                };
                let Some(got) = got else { ctx.stats.hit("skipped-op"); continue };
                ctx.stats.hit("op-read-queue");
                let want = if m.pos < m.buf.len() { m.pos += 1; Some(m.buf[m.pos - 1]) } else { None };
                if got != want {
                    viol!(ctx, "read-queue", "read (queue) -> {:x?}, model {:x?}", got, want);
                }
                if seen_none_queue && got.is_some() {
                    viol!(ctx, "read-after-end", "a read succeeded after end-of-data was reported");
                }
                seen_none_stack = false;
                if got.is_none() { seen_none_queue = true; ctx.stats.hit("probe-end-of-data"); }
            }
            BOp::RemainingStack => {
                let got: usize = match &obj {
                    Obj::Vec(v) => BoundedReadWords::<W, Stack>::remaining(v),
                    Obj::Small(v) => BoundedReadWords::<W, Stack>::remaining(v),
                    Obj::Cur(c) => BoundedReadWords::<W, Stack>::remaining(c),
                    Obj::Rev(c) => BoundedReadWords::<W, Stack>::remaining(c),
                    Obj::CurBox(c) => BoundedReadWords::<W, Stack>::remaining(c),
                    Obj::RevBox(c) => BoundedReadWords::<W, Stack>::remaining(c),
                };
                ctx.stats.hit("op-remaining");
                if got != m.pos {
                    viol!(ctx, "remaining-stack", "remaining (stack) = {} but exactly {} reads will succeed", got, m.pos);
                }
                let ex: bool = match &obj {
                    Obj::Vec(v) => BoundedReadWords::<W, Stack>::is_exhausted(v),
                    Obj::Small(v) => BoundedReadWords::<W, Stack>::is_exhausted(v),
                    Obj::Cur(c) => BoundedReadWords::<W, Stack>::is_exhausted(c),
                    Obj::Rev(c) => BoundedReadWords::<W, Stack>::is_exhausted(c),
                    Obj::CurBox(c) => BoundedReadWords::<W, Stack>::is_exhausted(c),
                    Obj::RevBox(c) => BoundedReadWords::<W, Stack>::is_exhausted(c),
                };
                if ex != (m.pos == 0) {
                    viol!(ctx, "is-exhausted", "is_exhausted (stack) = {} but exactly {} reads will succeed", ex, m.pos);
                }
            }
            BOp::RemainingQueue => {
                let got: Option<usize> = match &obj {
                    Obj::Cur(c) => Some(BoundedReadWords::<W, Queue>::remaining(c)),
                    Obj::Rev(c) => Some(BoundedReadWords::<W, Queue>::remaining(c)),
                    Obj::CurBox(c) => Some(BoundedReadWords::<W, Queue>::remaining(c)),
                    Obj::RevBox(c) => Some(BoundedReadWords::<W, Queue>::remaining(c)),
                    _ => None,
                };
                let Some(got) = got else { ctx.stats.hit("skipped-op"); continue };
                ctx.stats.hit("op-remaining");
                if got != m.buf.len() - m.pos {
                    viol!(ctx, "remaining-queue", "remaining (queue) = {} but exactly {} reads will succeed", got, m.buf.len() - m.pos);
                }
                let ex: bool = match &obj {
                    Obj::Cur(c) => BoundedReadWords::<W, Queue>::is_exhausted(c),
                    Obj::Rev(c) => BoundedReadWords::<W, Queue>::is_exhausted(c),
                    Obj::CurBox(c) => BoundedReadWords::<W, Queue>::is_exhausted(c),
                    Obj::RevBox(c) => BoundedReadWords::<W, Queue>::is_exhausted(c),
                    _ => unreachable!(),
                };
                if ex != (m.pos >= m.buf.len()) {
                    viol!(ctx, "is-exhausted", "is_exhausted (queue) = {} but exactly {} reads will succeed", ex, m.buf.len() - m.pos);
                }
            }
            BOp::SpaceLeft => {
                let got: Option<(usize, bool)> = match &obj {
                    Obj::Cur(c) => Some((c.space_left(), c.is_full())),
                    Obj::Rev(c) => Some((c.space_left(), c.is_full())),
                    Obj::CurBox(c) => Some((c.space_left(), c.is_full())),
                    Obj::RevBox(c) => Some((c.space_left(), c.is_full())),
                    _ => None,
                };
                let Some((got, full)) = got else { ctx.stats.hit("skipped-op"); continue };
                ctx.stats.hit("op-space-left");
                let want = m.buf.len() - m.pos;
                if got != want {
                    viol!(ctx, "space-left", "space_left() = {} but exactly {} writes will succeed ({})", got, want, if matches!(obj, Obj::Rev(_) | Obj::RevBox(_)) { "Reverse<Cursor>" } else { "Cursor" });
                }
                if full != (want == 0) {
                    viol!(ctx, "is-full", "is_full() = {} with room for {} writes", full, want);
                }
            }
            BOp::MaybeFlags => {
                let (ex_s, ex_q, full): (Option<bool>, Option<bool>, Option<bool>) = match &obj {
                    Obj::Vec(v) => (Some(ReadWords::<W, Stack>::maybe_exhausted(v)), None, Some(WriteWords::<W>::maybe_full(v))),
                    Obj::Small(v) => (Some(ReadWords::<W, Stack>::maybe_exhausted(v)), None, Some(WriteWords::<W>::maybe_full(v))),
                    Obj::Cur(c) => (Some(ReadWords::<W, Stack>::maybe_exhausted(c)), Some(ReadWords::<W, Queue>::maybe_exhausted(c)), Some(WriteWords::<W>::maybe_full(c))),
                    Obj::Rev(c) => (Some(ReadWords::<W, Stack>::maybe_exhausted(c)), Some(ReadWords::<W, Queue>::maybe_exhausted(c)), Some(WriteWords::<W>::maybe_full(c))),
                    Obj::CurBox(c) => (Some(ReadWords::<W, Stack>::maybe_exhausted(c)), Some(ReadWords::<W, Queue>::maybe_exhausted(c)), Some(WriteWords::<W>::maybe_full(c))),
                    Obj::RevBox(c) => (Some(ReadWords::<W, Stack>::maybe_exhausted(c)), Some(ReadWords::<W, Queue>::maybe_exhausted(c)), Some(WriteWords::<W>::maybe_full(c))),
                };
                ctx.stats.hit("op-maybe-flags");
                // a "false" answer of maybe_exhausted is a promise (documented): the next read is not end-of-data
                if ex_s == Some(false) && m.pos == 0 {
                    viol!(ctx, "maybe-exhausted-stack", "maybe_exhausted (stack) = false but the next read is end-of-data");
                }
                if ex_q == Some(false) && m.pos >= m.buf.len() {
                    viol!(ctx, "maybe-exhausted-queue", "maybe_exhausted (queue) = false but the next read is end-of-data");
                }
                // `maybe_full() == false` is NOT a promise: the trait documents that a sink that
                // is "not full" may still refuse a write.  Nothing is asserted about it.
                let _ = full;
            }
            BOp::Pos => {
                let p: usize = match &obj {
                    Obj::Vec(v) => v.pos(),
                    Obj::Small(v) => v.pos(),
                    Obj::Cur(c) => c.pos(),
                    Obj::Rev(c) => c.pos(),
                    Obj::CurBox(c) => c.pos(),
                    Obj::RevBox(c) => c.pos(),
                };
                let reversed = matches!(obj, Obj::Rev(_) | Obj::RevBox(_));
                remembered.push((p, m.buf.clone(), if reversed { usize::MAX - m.pos } else { m.pos }));
                ctx.stats.hit("op-pos");
            }
            BOp::SeekBack(k) => {
                if remembered.is_empty() { ctx.stats.hit("skipped-op"); continue; }
                let (p, _buf, mpos_tagged) = remembered[*k % remembered.len()].clone();
                // a position is meaningful in the orientation it was taken in
                let reversed = matches!(obj, Obj::Rev(_) | Obj::RevBox(_));
                let taken_reversed = mpos_tagged > usize::MAX / 2;
                let mpos = if taken_reversed { usize::MAX - mpos_tagged } else { mpos_tagged };
                if reversed != taken_reversed { ctx.stats.hit("skipped-op"); continue; }
                // valid iff the model position still exists
                let valid = if m.growable { mpos <= m.buf.len() } else { mpos <= m.buf.len() };
                let res = match &mut obj {
                    Obj::Vec(v) => v.seek(p),
                    Obj::Small(v) => v.seek(p),
                    Obj::Cur(c) => c.seek(p),
                    Obj::Rev(c) => c.seek(p),
                    Obj::CurBox(c) => c.seek(p),
                    Obj::RevBox(c) => c.seek(p),
                };
                ctx.stats.hit("op-seek-back");
                seen_none_stack = false;
                seen_none_queue = false;
                if res.is_ok() != valid {
                    viol!(ctx, "seek-back", "seek(pos() taken earlier) -> {:?}, model valid={}", res, valid);
                }
                if valid {
                    m.pos = mpos;
                    if m.growable { m.buf.truncate(mpos); }
                }
            }
            BOp::SeekAbs(p) => {
                let reversed = matches!(obj, Obj::Rev(_) | Obj::RevBox(_));
                let res = match &mut obj {
                    Obj::Vec(v) => v.seek(*p),
                    Obj::Small(v) => v.seek(*p),
                    Obj::Cur(c) => c.seek(*p),
                    Obj::Rev(c) => c.seek(*p),
                    Obj::CurBox(c) => c.seek(*p),
                    Obj::RevBox(c) => c.seek(*p),
                };
                ctx.stats.hit("op-seek-abs");
                seen_none_stack = false;
                seen_none_queue = false;
                let valid = *p <= m.buf.len();
                if !valid { ctx.stats.hit("fault-seek-out-of-range"); }
                if res.is_ok() != valid {
                    viol!(ctx, "seek-abs", "seek({}) -> {:?} with {} words", p, res, m.buf.len());
                }
                if valid {
                    m.pos = if reversed { m.buf.len() - *p } else { *p };
                    if m.growable { m.buf.truncate(*p); m.pos = *p; }
                }
            }
            BOp::Reverse => {
                obj = match obj {
                    Obj::Cur(c) => Obj::Rev(c.into_reversed()),
                    Obj::Rev(c) => Obj::Cur(c.into_reversed()),
                    Obj::CurBox(c) => Obj::RevBox(c.into_reversed()),
                    Obj::RevBox(c) => Obj::CurBox(c.into_reversed()),
                    o => { ctx.stats.hit("skipped-op"); o }
                };
                ctx.stats.hit("op-reverse");
            }
            BOp::View { queue, n } => {
                let got: Option<Vec<Option<u64>>> = match &obj {
                    Obj::Cur(c) => Some({ let mut v = c.as_view(); (0..*n).map(|_| if *queue { ReadWords::<W, Queue>::read(&mut v).unwrap().map(w_to) } else { ReadWords::<W, Stack>::read(&mut v).unwrap().map(w_to) }).collect() }),
                    Obj::CurBox(c) => Some({ let mut v = c.as_view(); (0..*n).map(|_| if *queue { ReadWords::<W, Queue>::read(&mut v).unwrap().map(w_to) } else { ReadWords::<W, Stack>::read(&mut v).unwrap().map(w_to) }).collect() }),
                    _ => None,
                };
                let Some(got) = got else { ctx.stats.hit("skipped-op"); continue };
                ctx.stats.hit("op-view");
                let mut p = m.pos;
                let want: Vec<Option<u64>> = (0..*n).map(|_| if *queue { if p < m.buf.len() { p += 1; Some(m.buf[p - 1]) } else { None } } else if p > 0 { p -= 1; Some(m.buf[p]) } else { None }).collect();
                if got != want {
                    viol!(ctx, "view-reads", "reads through as_view(): {:x?}, model {:x?}", got, want);
                }
            }
            BOp::MutViewWrite(w) => {
                let word: W = w_from(*w);
                // two routes to a cursor over the same buffer as `&mut [W]`: `as_mut_view()` and
                // `Cursor::new_at_pos_mut(&mut buf[..], pos)` (chosen by the word's parity)
                macro_rules! via_mut {
                    ($c:expr) => {{
                        if *w & 1 == 0 {
                            Some($c.as_mut_view().write(word).is_ok())
                        } else {
                            let pos = $c.pos();
                            let buf = $c.buf_mut();
                            {
                                // a cursor at the write end of a mutable slice: full, top of stack = last word
                                let mut end = Cursor::<W, &mut [W]>::new_at_write_end_mut(&mut buf[..]);
                                let top = ReadWords::<W, Stack>::read(&mut end).unwrap().map(w_to);
                                if top != m.buf.last().cloned() {
                                    viol!(ctx, "mut-slice-cursor", "new_at_write_end_mut: stack read {:x?}, last word of the buffer {:x?}", top, m.buf.last());
                                }
                            }
                            match Cursor::<W, &mut [W]>::new_at_pos_mut(&mut buf[..], pos) {
                                Ok(mut cur) => Some(cur.write(word).is_ok()),
                                Err(()) => { viol!(ctx, "mut-slice-cursor", "new_at_pos_mut refused position {} of {}", pos, m.buf.len()); }
                            }
                        }
                    }};
                }
                let res: Option<bool> = match &mut obj {
                    Obj::Cur(c) => via_mut!(c),
                    Obj::CurBox(c) => via_mut!(c),
                    _ => None,
                };
                let Some(ok) = res else { ctx.stats.hit("skipped-op"); continue };
                ctx.stats.hit("op-mut-view-write");
                let want_ok = m.pos < m.buf.len();
                if want_ok { m.buf[m.pos] = w_to(word); }
                if ok != want_ok {
                    viol!(ctx, "mut-view-write", "write through as_mut_view() ok={} model {}", ok, want_ok);
                }
            }
            BOp::Cloned => {
                let got: Option<(Vec<u64>, usize)> = match &obj {
                    Obj::Cur(c) => Some({ let (b, p) = c.cloned().into_buf_and_pos(); (b.iter().map(|&w| w_to(w)).collect(), p) }),
                    Obj::CurBox(c) => Some({ let (b, p) = c.cloned().into_buf_and_pos(); (b.iter().map(|&w| w_to(w)).collect(), p) }),
                    _ => None,
                };
                let Some(got) = got else { ctx.stats.hit("skipped-op"); continue };
                ctx.stats.hit("op-cloned");
                // `clone_from` into a cursor that holds something else, then continue on the copy:
                // nothing observable may change (the following operations check it)
                if let Obj::Cur(c) = &mut obj {
                    let k = (m.pos * 7 + m.buf.len() * 3 + 1) % 11;
                    let mut target = Cursor::new_at_pos(vec![W::default(); k], k / 2).expect("in range");
                    target.clone_from(c);
                    *c = target;
                    ctx.stats.hit("op-clone-from");
                }
                if got != (m.buf.clone(), m.pos) {
                    viol!(ctx, "cloned", "cloned() = {:x?}, model ({:x?}, {})", got, m.buf, m.pos);
                }
            }
        }
        ctx.stats.state(hash_mix(hash_mix(m.pos.min(6) as u64, (m.buf.len() - m.pos.min(m.buf.len())).min(6) as u64), hash_mix(t.word as u64, match obj { Obj::Vec(_) => 0, Obj::Small(_) => 1, Obj::Cur(_) => 2, Obj::Rev(_) => 3, Obj::CurBox(_) => 4, Obj::RevBox(_) => 5 })));
    }
    Ok(())
}

fn exec_iter<W: BitArray>(t: &BackendTrace, init: &[W], ctx: &mut Ctx) -> Result<(), Violation> {
    // items: init words in order, with Err items at the given read indices
    let mut items: Vec<Result<W, u32>> = Vec::new();
    let mut it = init.iter();
    let mut k = 0;
    loop {
        if t.err_at.contains(&k) {
            items.push(Err(k as u32));
        } else if let Some(w) = it.next() {
            items.push(Ok(*w));
        } else {
            break;
        }
        k += 1;
        if k > init.len() + t.err_at.len() + 1 { break; }
    }
    // a legal but non-fused iterator: yields `None` once at `gap_at`, then continues
    struct Gappy<W> {
        items: Vec<Result<W, u32>>,
        i: usize,
        gap_at: Option<usize>,
        gap_done: bool,
    }
    impl<W: Clone> Iterator for Gappy<W> {
        type Item = Result<W, u32>;
        fn next(&mut self) -> Option<Self::Item> {
            if Some(self.i) == self.gap_at && !self.gap_done {
                self.gap_done = true;
                return None;
            }
            let r = self.items.get(self.i).cloned();
            if r.is_some() {
                self.i += 1;
            }
            r
        }
        fn size_hint(&self) -> (usize, Option<usize>) {
            let n = self.items.len() - self.i;
            (n, Some(n))
        }
    }
    impl<W: Clone> ExactSizeIterator for Gappy<W> {}
    let gap = t.gap_at.filter(|g| *g <= items.len());
    if gap.is_some() {
        ctx.stats.hit("fault-non-fused-iterator");
    }
    // what the consumer must see: everything up to the first end-of-data, then nothing
    let want: Vec<Result<W, u32>> = match gap { Some(g) => items[..g].to_vec(), None => items.clone() };
    let no_errors = !want.iter().any(|x| x.is_err()) && gap.is_none();
    // the same iterator behind an opaque wrapper: no usable size hint (a stream from a file or
    // socket, `iter::from_fn`); chosen by the trace
    struct Opaque<I>(I);
    impl<I: Iterator> Iterator for Opaque<I> {
        type Item = I::Item;
        fn next(&mut self) -> Option<Self::Item> {
            self.0.next()
        }
    }
    let inexact = t.inexact_hint;
    macro_rules! run {
        ($b:expr, $remaining:expr) => {{
            let mut b = $b;
            let mut idx = 0;
            for (i, op) in t.ops.iter().enumerate() {
                ctx.op = i;
                match op {
                    BOp::ReadStack | BOp::ReadQueue => {
                        let got = if matches!(op, BOp::ReadStack) { ReadWords::<W, Stack>::read(&mut b) } else { ReadWords::<W, Queue>::read(&mut b) };
                        ctx.stats.hit("op-read-iter");
                        let w = match want.get(idx) { Some(Ok(w)) => Ok(Some(*w)), Some(Err(e)) => { ctx.stats.hit("fault-read-error"); Err(*e) } None => Ok(None) };
                        idx += 1;
                        if got != w {
                            viol!(ctx, "iter-read", "read {} -> {:?}, expected {:?}", idx - 1, got, w);
                        }
                    }
                    BOp::RemainingStack | BOp::RemainingQueue if no_errors => {
                        let r: Option<fn(&_) -> usize> = $remaining;
                        if let Some(r) = r {
                            let got = r(&b);
                            let left = want.len().saturating_sub(idx);
                            if got != left {
                                viol!(ctx, "iter-remaining", "remaining() = {} but {} reads will succeed", got, left);
                            }
                        }
                    }
                    BOp::MaybeFlags => {
                        // `maybe_exhausted() == false` is a promise that the next read is not end-of-data
                        let (s, q) = (ReadWords::<W, Stack>::maybe_exhausted(&b), ReadWords::<W, Queue>::maybe_exhausted(&b));
                        ctx.stats.hit("op-maybe-flags-iter");
                        if (!s || !q) && want.get(idx).is_none() {
                            viol!(ctx, "iter-maybe-exhausted", "maybe_exhausted() = ({}, {}) (stack, queue) but the next read is end-of-data ({} size hint)", s, q, if inexact { "no" } else { "exact" });
                        }
                    }
                    _ => ctx.stats.hit("skipped-op"),
                }
            }
        }};
    }
    let gappy = Gappy { items, i: 0, gap_at: gap, gap_done: false };
    if inexact {
        ctx.stats.hit("probe-iterator-without-size-hint");
        run!(FallibleIteratorReadWords::new(Opaque(gappy)), None);
    } else {
        run!(FallibleIteratorReadWords::new(gappy), Some(|b| BoundedReadWords::<W, Stack>::remaining(b)));
    }
    Ok(())
}

fn exec_callback<W: BitArray>(t: &BackendTrace, ctx: &mut Ctx) -> Result<(), Violation> {
    let mut got: Vec<W> = Vec::new();
    let mut got2: Vec<W> = Vec::new();
    let mut want: Vec<W> = Vec::new();
    let fail_at = t.err_at.first().cloned();
    let mut want2: Vec<W> = Vec::new();
    {
        let mut a = InfallibleCallbackWriteWords::new(|w: W| got.push(w));
        let mut n = 0usize;
        let mut b = FallibleCallbackWriteWords::new(|w: W| {
            n += 1;
            if Some(n - 1) == fail_at { Err(n as u32) } else { got2.push(w); Ok(()) }
        });
        let mut nb = 0usize;
        for (i, op) in t.ops.iter().enumerate() {
            ctx.op = i;
            let words: Vec<W> = match op { BOp::Write(w) => vec![w_from(*w)], BOp::Extend(ws) => ws.iter().map(|&w| w_from(w)).collect(), _ => { ctx.stats.hit("skipped-op"); continue } };
            ctx.stats.hit("op-write-callback");
            let ra = if words.len() == 1 { a.write(words[0]) } else { a.extend_from_iter(words.iter().cloned()) };
            if ra.is_err() { unreachable!() }
            want.extend(words.iter().cloned());
            let rb = if words.len() == 1 { b.write(words[0]) } else { b.extend_from_iter(words.iter().cloned()) };
            let mut want_rb = Ok(());
            for w in &words {
                nb += 1;
                if Some(nb - 1) == fail_at { want_rb = Err(nb as u32); ctx.stats.hit("fault-write-error"); break; } else { want2.push(*w); }
            }
            if rb != want_rb {
                viol!(ctx, "callback-write-result", "fallible callback write -> {:?}, expected {:?}", rb, want_rb);
            }
        }
    }
    if got != want {
        viol!(ctx, "callback-words", "infallible callback saw {:x?}, expected {:x?}", got, want);
    }
    if got2 != want2 {
        viol!(ctx, "callback-words", "fallible callback saw {:x?}, expected {:x?}", got2, want2);
    }
    Ok(())
}

pub fn generate(seed: u64, _prop: &str, _thorough: bool) -> BackendTrace {
    let mut root = Rng::new(seed);
    let mut rng = root.fork("workload");
    let mut frng = root.fork("faults");
    let word = *rng.pick(&[8u8, 16, 32, 64]);
    let kind = *rng.pick(&[Kind::Vec, Kind::Small, Kind::CursorVec, Kind::CursorVec, Kind::CursorVec, Kind::CursorBox, Kind::FallibleIter, Kind::Callback]);
    let n = rng.len(5, 16);
    let init: Vec<u64> = (0..n).map(|_| rng.word(word as u32)).collect();
    let pos = rng.usize(n + 1);
    let err_at: Vec<usize> = if frng.chance(1, 2) { (0..frng.usize(3)).map(|_| frng.usize(n + 2)).collect() } else { Vec::new() };
    let n_ops = rng.len(20, 120);
    let mut ops = Vec::new();
    for _ in 0..n_ops {
        ops.push(match rng.below(22) {
            0..=3 => BOp::Write(rng.word(word as u32)),
            4 => BOp::Extend((0..rng.usize(4)).map(|_| rng.word(word as u32)).collect()),
            5..=7 => BOp::ReadStack,
            8..=10 => BOp::ReadQueue,
            11 => BOp::RemainingStack,
            12 => BOp::RemainingQueue,
            13 => BOp::SpaceLeft,
            14 => BOp::MaybeFlags,
            15 => BOp::Pos,
            16 => BOp::SeekBack(rng.usize(8)),
            17 => BOp::SeekAbs(if frng.chance(1, 3) { n + 1 + frng.usize(4) } else { rng.usize(n + 2) }),
            18 => BOp::Reverse,
            19 => BOp::View { queue: rng.chance(1, 2), n: rng.usize(5) },
            20 => BOp::MutViewWrite(rng.word(word as u32)),
            _ => BOp::Cloned,
        });
    }
    let gap_at = if kind == Kind::FallibleIter && frng.chance(1, 3) { Some(frng.usize(n + 1)) } else { None };
    BackendTrace { word, kind, init, pos, err_at, gap_at, inexact_hint: kind == Kind::FallibleIter && frng.chance(1, 2), ops }
}
