//! World `diag` (C18, second sentence): information-theoretic diagnostics of a model versus
//! their textbook definitions on the model's exact fixed-point probabilities.
//!
//! NOTE (honest labelling): these are pure functions of a model; there is no history, schedule
//! or fault here.  This is plain seeded input sampling that rides on the model zoo, added
//! because a seeded change (C18-B) lives in this half of the property.  See DESIGN section 4.

use constriction::stream::model::{
    ContiguousCategoricalEntropyModel, EncoderModel, IterableEntropyModel, LeakyQuantizer, UniformModel,
};
use constriction::{BitArray, NonZeroBitArray};
use probability::distribution::Gaussian;
use serde::{Deserialize, Serialize};

use crate::common::*;
use crate::rng::Rng;

#[derive(Clone, Debug, Serialize, Deserialize, PartialEq)]
pub struct DiagTrace {
    /// 0: (u8,8) 1: (u16,12) 2: (u16,16) 3: (u32,24) 4: (u32,32) 5: (u8,5)
    pub pp: usize,
    /// 0 uniform(n), 1 categorical fast f64 from `weights`, 2 quantized Gaussian(mean,std) over 0..n-1
    pub kind: u8,
    pub n: usize,
    pub weights: Vec<f64>,
    pub mean: f64,
    pub std: f64,
    /// reference distribution p (normalised by the executor); zeros allowed
    pub p: Vec<f64>,
}

fn close(a: f64, b: f64) -> bool {
    if !a.is_finite() || !b.is_finite() {
        // infinities must agree exactly (KL divergences may legitimately be infinite)
        return a == b;
    }
    (a - b).abs() <= 1e-9 * (1.0 + a.abs().max(b.abs()))
}

macro_rules! viol {
    ($ctx:expr, $tag:expr, $($fmt:tt)*) => {
        if $ctx.on("C18") {
            return Err(Violation::new("C18", $tag, $ctx.op, format!($($fmt)*)));
        } else {
            return Ok(());
        }
    };
}

fn check<'m, M, const P: usize>(m: &'m M, holder: &'m &'m M, syms: &[M::Symbol], p_raw: &[f64], ctx: &mut Ctx) -> Result<(), Violation>
where
    M: IterableEntropyModel<'m, P> + EncoderModel<P>,
    M::Probability: Into<f64>,
    M::Symbol: Clone,
    f64: From<M::Probability>,
{
    let table: Vec<(f64, f64)> = m.symbol_table().map(|(_, c, pr)| (c.into(), pr.get().into())).collect();
    let whole = 2f64.powi(P as i32);
    let q: Vec<f64> = table.iter().map(|t| t.1 / whole).collect();
    let n = q.len();
    if n != syms.len() {
        viol!(ctx, "diag-table-length", "symbol table has {} entries, support has {}", n, syms.len());
    }
    let psum: f64 = p_raw.iter().take(n).sum();
    let p: Vec<f64> = (0..n).map(|i| p_raw.get(i).cloned().unwrap_or(0.0) / psum).collect();
    // textbook definitions
    let entropy: f64 = -q.iter().map(|x| x * x.log2()).sum::<f64>();
    let cross: f64 = -(0..n).map(|i| if p[i] == 0.0 { 0.0 } else { p[i] * q[i].log2() }).sum::<f64>();
    let rcross: f64 = -(0..n).map(|i| q[i] * p[i].log2()).sum::<f64>();
    let kl: f64 = (0..n).map(|i| if p[i] == 0.0 { 0.0 } else { p[i] * (p[i] / q[i]).log2() }).sum::<f64>();
    let rkl: f64 = (0..n).map(|i| q[i] * (q[i] / p[i]).log2()).sum::<f64>();
    ctx.stats.hit("diag-models-checked");
    let e: f64 = m.entropy_base2();
    if !close(e, entropy) {
        viol!(ctx, "diag-entropy", "entropy_base2()={} textbook={}", e, entropy);
    }
    let c: f64 = m.cross_entropy_base2(p.iter().cloned());
    if !close(c, cross) {
        viol!(ctx, "diag-cross-entropy", "cross_entropy_base2()={} textbook={}", c, cross);
    }
    let k: f64 = m.kl_divergence_base2(p.iter().cloned());
    if !close(k, kl) {
        viol!(ctx, "diag-kl", "kl_divergence_base2()={} textbook={}", k, kl);
    }
    if p.iter().all(|x| *x > 0.0) {
        let rc: f64 = m.reverse_cross_entropy_base2(p.iter().cloned());
        if !close(rc, rcross) {
            viol!(ctx, "diag-reverse-cross-entropy", "reverse_cross_entropy_base2()={} textbook={}", rc, rcross);
        }
        let rk: f64 = m.reverse_kl_divergence_base2(p.iter().cloned());
        if !close(rk, rkl) {
            viol!(ctx, "diag-reverse-kl", "reverse_kl_divergence_base2()={} textbook={}", rk, rkl);
        }
    } else {
        ctx.stats.hit("probe-reference-with-zeros");
    }
    // the same diagnostics requested through a reference type (`Self = &M`), which is how
    // generic code that takes `impl IterableEntropyModel` by value is usually instantiated
    {
        fn by_ref<'m, R, const P: usize>(r: &'m R, p: &[f64]) -> (f64, f64, f64, f64, f64)
        where
            R: IterableEntropyModel<'m, P>,
            R::Probability: Into<f64>,
        {
            (
                r.entropy_base2(),
                r.cross_entropy_base2(p.iter().cloned()),
                r.reverse_cross_entropy_base2(p.iter().cloned()),
                r.kl_divergence_base2(p.iter().cloned()),
                r.reverse_kl_divergence_base2(p.iter().cloned()),
            )
        }
        let (e2, c2, rc2, k2, rk2) = by_ref::<&'m M, P>(holder, &p);
        if !close(e2, entropy) {
            viol!(ctx, "diag-entropy", "by reference: entropy_base2()={} textbook={}", e2, entropy);
        }
        if !close(c2, cross) {
            viol!(ctx, "diag-cross-entropy", "by reference: cross_entropy_base2()={} textbook={}", c2, cross);
        }
        if !close(k2, kl) {
            viol!(ctx, "diag-kl", "by reference: kl_divergence_base2()={} textbook={}", k2, kl);
        }
        if p.iter().all(|x| *x > 0.0) {
            if !close(rc2, rcross) {
                viol!(ctx, "diag-reverse-cross-entropy", "by reference: reverse_cross_entropy_base2()={} textbook={}", rc2, rcross);
            }
            if !close(rk2, rkl) {
                viol!(ctx, "diag-reverse-kl", "by reference: reverse_kl_divergence_base2()={} textbook={}", rk2, rkl);
            }
        }
    }
    for (i, (_, cf, pf)) in m.floating_point_symbol_table::<f64>().enumerate() {
        if !close(cf, table[i].0 / whole) || !close(pf, q[i]) {
            viol!(ctx, "diag-float-table", "entry {}: ({}, {}) expected ({}, {})", i, cf, pf, table[i].0 / whole, q[i]);
        }
    }
    for (i, s) in syms.iter().enumerate() {
        let fp: f64 = m.floating_point_probability(s.clone());
        if !close(fp, q[i]) {
            viol!(ctx, "diag-float-probability", "symbol {}: {} expected {}", i, fp, q[i]);
        }
    }
    Ok(())
}

macro_rules! run_pp {
    ($Prob:ty, $P:literal, $t:expr, $ctx:expr) => {{
        let t: &DiagTrace = $t;
        let n = t.n.max(2).min((1usize << ($P as usize).min(12)) - 2);
        match t.kind % 3 {
            0 => {
                let m = UniformModel::<$Prob, $P>::new(n);
                let syms: Vec<usize> = (0..n).collect();
                { let mr = &m; check::<_, $P>(&m, &mr, &syms, &t.p, $ctx) }
            }
            1 => {
                let w: Vec<f64> = (0..n).map(|i| t.weights.get(i).cloned().unwrap_or(1.0).abs() + 1e-9).collect();
                match ContiguousCategoricalEntropyModel::<$Prob, Vec<$Prob>, $P>::from_floating_point_probabilities_fast(&w, None) {
                    Ok(m) => {
                        let syms: Vec<usize> = (0..n).collect();
                        { let mr = &m; check::<_, $P>(&m, &mr, &syms, &t.p, $ctx) }
                    }
                    Err(()) => Ok(()),
                }
            }
            _ => {
                let hi = (n as i32 - 1).max(1);
                let m = LeakyQuantizer::<f64, i32, $Prob, $P>::new(0..=hi).quantize(Gaussian::new(t.mean, t.std.max(1e-3)));
                let syms: Vec<i32> = (0..=hi).collect();
                { let mr = &m; check::<_, $P>(&m, &mr, &syms, &t.p, $ctx) }
            }
        }
    }};
}

pub fn exec(t: &DiagTrace, ctx: &mut Ctx) -> Result<(), Violation> {
    ctx.stats.state(hash_mix(t.pp as u64, hash_mix(t.kind as u64, t.n.min(40) as u64)));
    match t.pp % 6 {
        0 => run_pp!(u8, 8, t, ctx),
        1 => run_pp!(u16, 12, t, ctx),
        2 => run_pp!(u16, 16, t, ctx),
        3 => run_pp!(u32, 24, t, ctx),
        4 => run_pp!(u32, 32, t, ctx),
        _ => run_pp!(u8, 5, t, ctx),
    }
}

pub fn generate(seed: u64, _prop: &str, _thorough: bool) -> DiagTrace {
    let mut rng = Rng::new(seed).fork("workload");
    let big = rng.chance(1, 5);
    let n = 2 + rng.usize(if big { 200 } else { 20 });
    let weights: Vec<f64> = (0..n).map(|_| if rng.chance(1, 6) { 0.0 } else { rng.f64() }).collect();
    let zeros = rng.chance(1, 3);
    let mut p: Vec<f64> = (0..n).map(|_| if zeros && rng.chance(1, 4) { 0.0 } else { 0.01 + rng.f64() }).collect();
    if p.iter().sum::<f64>() <= 0.0 { p[0] = 1.0; }
    DiagTrace { pp: rng.usize(6), kind: rng.below(3) as u8, n, weights, mean: rng.f64() * n as f64, std: 0.2 + rng.f64() * n as f64, p }
}
