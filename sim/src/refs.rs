//! Small executable reference models (DESIGN 2.6): R-RANS and R-RANGE.
//! Written from the textbook formulations, with explicit L / b and a `while` renormalisation
//! loop (rANS) and an unbounded-precision `low` with ripple carry (range coding).  Neither
//! has a "situation", a held-back word or a truncating chunk iterator.

/// Textbook streaming rANS.  Parameters: b = 2^w (word radix), L = 2^(s-w) (lower bound of
/// the normalised interval I = [L, bL)).
#[derive(Clone, Debug, PartialEq, Eq)]
pub struct RefAns {
    pub w: u32,
    pub s: u32,
    /// emitted words, oldest first
    pub bulk: Vec<u64>,
    /// head; 0 = empty coder
    pub x: u128,
}

fn mask(bits: u32) -> u128 {
    if bits >= 128 {
        u128::MAX
    } else {
        (1u128 << bits) - 1
    }
}

impl RefAns {
    pub fn empty(w: u32, s: u32) -> Self {
        RefAns { w, s, bulk: Vec::new(), x: 0 }
    }
    fn l(&self) -> u128 {
        1u128 << (self.s - self.w)
    }
    /// serialisation: emitted words, then the non-zero words of the head, least significant
    /// word first... written most significant *last* word first?  No: the documented order is
    /// "bulk, then the words of the head with the most significant word last" — i.e. popping
    /// words from the end of the stream rebuilds the head most-significant-word first.
    pub fn words(&self) -> Vec<u64> {
        let mut out = self.bulk.clone();
        let mut x = self.x;
        let mut head = Vec::new();
        while x != 0 {
            head.push((x & mask(self.w)) as u64);
            x >>= self.w.min(127);
            if self.w >= 128 {
                break;
            }
        }
        // `head` is least significant first; the stream stores the least significant word
        // first as well, so that the *last* word of the stream is the most significant one.
        out.extend(head);
        out
    }
    /// inverse of `words` (None if the last word is zero, which no serialisation produces)
    pub fn from_words(w: u32, s: u32, words: &[u64]) -> Option<Self> {
        let mut bulk = words.to_vec();
        let mut r = RefAns { w, s, bulk: Vec::new(), x: 0 };
        if let Some(&last) = bulk.last() {
            if last == 0 {
                return None;
            }
        }
        while r.x < r.l() {
            match bulk.pop() {
                Some(word) => r.x = (r.x << w) | word as u128,
                None => break,
            }
        }
        r.bulk = bulk;
        Some(r)
    }
    /// raw binary payload: equivalent to appending a `1` word and loading
    pub fn from_binary(w: u32, s: u32, words: &[u64]) -> Self {
        let mut v = words.to_vec();
        v.push(1);
        Self::from_words(w, s, &v).expect("last word is 1")
    }
    /// payload bits (excluding the marker bit); None if empty
    pub fn valid_bits(&self) -> Option<usize> {
        if self.x == 0 {
            return None;
        }
        Some(self.bulk.len() * self.w as usize + (127 - self.x.leading_zeros() as usize))
    }
    /// raw binary export: Some(words) iff the payload is a whole number of words
    pub fn binary(&self) -> Option<Vec<u64>> {
        let vb = self.valid_bits()?;
        if vb % self.w as usize != 0 {
            return None;
        }
        let head_bits = 127 - self.x.leading_zeros();
        let mut x = self.x ^ (1u128 << head_bits);
        let mut out = self.bulk.clone();
        for _ in 0..(head_bits / self.w) {
            out.push((x & mask(self.w)) as u64);
            x >>= self.w;
        }
        Some(out)
    }
    pub fn encode(&mut self, cum: u64, prob: u64, p: u32) {
        let prob = prob as u128;
        // x_max = ((L >> p) << w) * prob
        let x_max_hi = (self.l() >> p) * prob; // x_max = x_max_hi << w  (may not fit: compare shifted)
        while (self.x >> self.w) >= x_max_hi {
            self.bulk.push((self.x & mask(self.w)) as u64);
            self.x >>= self.w;
        }
        self.x = ((self.x / prob) << p) + cum as u128 + (self.x % prob);
    }
    /// returns the quantile that the decoder must look up
    pub fn peek_quantile(&self, p: u32) -> u64 {
        (self.x & mask(p)) as u64
    }
    pub fn decode(&mut self, cum: u64, prob: u64, p: u32) {
        let q = self.x & mask(p);
        self.x = (self.x >> p) * prob as u128 + (q - cum as u128);
        while self.x < self.l() {
            match self.bulk.pop() {
                Some(word) => self.x = (self.x << self.w) | word as u128,
                None => break,
            }
        }
    }
}

/// Carry-propagating range coder in unbounded precision.
#[derive(Clone, Debug)]
pub struct RefRange {
    pub w: u32,
    pub s: u32,
    /// base-2^w digits of `low`, most significant first; length = renorms + s/w
    pub low: Vec<u64>,
    pub range: u128,
    pub renorms: usize,
    pub encoded_any: bool,
}

impl RefRange {
    pub fn new(w: u32, s: u32) -> Self {
        RefRange { w, s, low: vec![0; (s / w) as usize], range: mask(s), renorms: 0, encoded_any: false }
    }
    fn add_to(digits: &mut Vec<u64>, mut add: u128, w: u32) -> bool {
        // add `add` at the least significant end with ripple carry; returns true on
        // carry out of the most significant digit
        let m = mask(w);
        let mut i = digits.len();
        let mut carry: u128 = 0;
        while (add != 0 || carry != 0) && i > 0 {
            i -= 1;
            let sum = digits[i] as u128 + (add & m) + carry;
            digits[i] = (sum & m) as u64;
            carry = sum >> w;
            add = if w >= 128 { 0 } else { add >> w };
        }
        add != 0 || carry != 0
    }
    /// returns false if arithmetic overflowed (cannot happen for well-formed models)
    pub fn encode(&mut self, cum: u64, prob: u64, p: u32) -> bool {
        self.encoded_any = true;
        let scale = self.range >> p;
        let ok = !Self::add_to(&mut self.low, scale * cum as u128, self.w);
        self.range = scale * prob as u128;
        if self.range < 1u128 << (self.s - self.w) {
            self.range <<= self.w;
            self.low.push(0);
            self.renorms += 1;
        }
        ok
    }
    /// The words prescribed by the sealing rule of notes/range-coding.md ("Finishing up"): the
    /// leading renorms+1 digits of low + 2^(s-w) - 1, followed by as many zero digits as are
    /// needed for a continuation with only one bits to stay below low + range.  For s = 2w
    /// this is exactly "one zero word iff the most significant words of upper and point agree".
    pub fn sealed(&self) -> Vec<u64> {
        if !self.encoded_any {
            return Vec::new();
        }
        let keep = self.renorms + 1;
        let mut point = self.low.clone();
        let _ = Self::add_to(&mut point, (1u128 << (self.s - self.w)) - 1, self.w);
        let mut out: Vec<u64> = point[..keep].to_vec();
        let max_len = self.low.len();
        while out.len() < max_len && !self.continuation_inside(&out).1 {
            out.push(0);
        }
        out
    }
    /// C11: given the sealed words, would the all-ones / all-zeros continuation stay inside
    /// [low, low+range)?  Compares in the frame of `low`'s digits extended by `extra` digits.
    pub fn continuation_inside(&self, sealed: &[u64]) -> (bool, bool) {
        if !self.encoded_any {
            return (true, true);
        }
        let n = self.low.len().max(sealed.len()) + 1;
        let pad = |v: &[u64], fill: u64| -> Vec<u64> {
            let mut x = v.to_vec();
            while x.len() < n {
                x.push(fill);
            }
            x.truncate(n);
            x
        };
        let m = mask(self.w) as u64;
        let lo = pad(&self.low, 0);
        let mut hi = pad(&self.low, 0);
        // hi = low + range (exclusive), aligned: range sits at digit position low.len()-1 as lsb
        let mut r = vec![0u64; n];
        {
            let mut x = self.range;
            let mut i = self.low.len();
            while x != 0 && i > 0 {
                i -= 1;
                r[i] = (x & mask(self.w)) as u64;
                x >>= self.w;
            }
        }
        // hi += r
        let mut carry = 0u128;
        for i in (0..n).rev() {
            let sum = hi[i] as u128 + r[i] as u128 + carry;
            hi[i] = (sum & mask(self.w)) as u64;
            carry = sum >> self.w;
        }
        let overflow = carry != 0; // then hi > any n-digit number
        let zeros = pad(sealed, 0);
        let ones = pad(sealed, m);
        let zeros_ok = zeros >= lo && (overflow || zeros < hi);
        // all-ones continuation is the supremum (never attained): need ones' successor <= hi,
        // i.e. ones < hi in n digits (ones ends in a max digit, so ones + 1ulp <= hi iff ones < hi)
        let ones_ok = ones >= lo && (overflow || ones < hi);
        (zeros_ok, ones_ok)
    }
}
