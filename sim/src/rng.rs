//! SplitMix64 seeding + xoshiro256**.  One integer decides everything (DESIGN 2.2).

#[derive(Clone, Debug)]
pub struct Rng {
    s: [u64; 4],
}

pub fn splitmix(x: &mut u64) -> u64 {
    *x = x.wrapping_add(0x9E37_79B9_7F4A_7C15);
    let mut z = *x;
    z = (z ^ (z >> 30)).wrapping_mul(0xBF58_476D_1CE4_E5B9);
    z = (z ^ (z >> 27)).wrapping_mul(0x94D0_49BB_1331_11EB);
    z ^ (z >> 31)
}

pub fn hash_str(s: &str) -> u64 {
    // FNV-1a, stable across runs and platforms (no std RandomState anywhere)
    let mut h = 0xcbf2_9ce4_8422_2325u64;
    for b in s.bytes() {
        h ^= b as u64;
        h = h.wrapping_mul(0x1000_0000_01b3);
    }
    h
}

/// seed of run `index` of `label` under `VERIF_SEED = seed`
pub fn run_seed(seed: u64, label: &str, index: u64) -> u64 {
    let mut x = seed ^ hash_str(label).rotate_left(17);
    let a = splitmix(&mut x);
    let mut y = a ^ index.wrapping_mul(0xD6E8_FEB8_6659_FD93);
    splitmix(&mut y)
}

impl Rng {
    pub fn new(seed: u64) -> Self {
        let mut x = seed;
        let s = [splitmix(&mut x), splitmix(&mut x), splitmix(&mut x), splitmix(&mut x)];
        Rng { s }
    }
    pub fn fork(&mut self, label: &str) -> Rng {
        Rng::new(self.next_u64() ^ hash_str(label))
    }
    #[inline]
    pub fn next_u64(&mut self) -> u64 {
        let r = self.s[1].wrapping_mul(5).rotate_left(7).wrapping_mul(9);
        let t = self.s[1] << 17;
        self.s[2] ^= self.s[0];
        self.s[3] ^= self.s[1];
        self.s[1] ^= self.s[2];
        self.s[0] ^= self.s[3];
        self.s[2] ^= t;
        self.s[3] = self.s[3].rotate_left(45);
        r
    }
    /// uniform in 0..n (n > 0)
    #[inline]
    pub fn below(&mut self, n: u64) -> u64 {
        debug_assert!(n > 0);
        ((self.next_u64() as u128 * n as u128) >> 64) as u64
    }
    #[inline]
    pub fn range(&mut self, lo: i64, hi_incl: i64) -> i64 {
        lo + self.below((hi_incl - lo + 1) as u64) as i64
    }
    #[inline]
    pub fn usize(&mut self, n: usize) -> usize {
        self.below(n as u64) as usize
    }
    #[inline]
    pub fn chance(&mut self, num: u64, den: u64) -> bool {
        self.below(den) < num
    }
    pub fn f64(&mut self) -> f64 {
        (self.next_u64() >> 11) as f64 / (1u64 << 53) as f64
    }
    pub fn pick<'a, T>(&mut self, xs: &'a [T]) -> &'a T {
        &xs[self.usize(xs.len())]
    }
    /// geometric-ish length with given mean, capped
    pub fn len(&mut self, mean: usize, cap: usize) -> usize {
        let mut n = 0;
        while n < cap && !self.chance(1, mean as u64 + 1) {
            n += 1;
        }
        n
    }
    /// "interesting" word of `bits` bits: random, 0, all-ones, small, single bit ...
    pub fn word(&mut self, bits: u32) -> u64 {
        let mask = if bits >= 64 { u64::MAX } else { (1u64 << bits) - 1 };
        let r = match self.below(10) {
            0 => 0,
            1 => u64::MAX,
            2 => 1,
            3 => 1u64 << self.below(bits as u64),
            4 => self.below(4),
            5 => u64::MAX - self.below(4),
            _ => self.next_u64(),
        };
        r & mask
    }
}
