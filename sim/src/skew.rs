//! World `skew`: representation skew between writer, twin writer and reader of one entropy
//! model (DESIGN 3: C05 in its observable form).

use constriction::stream::queue::{RangeDecoder, RangeEncoder};
use constriction::stream::stack::AnsCoder;
use constriction::stream::Code;
use constriction::UnwrapInfallible;
use serde::{Deserialize, Serialize};

use crate::common::*;
use crate::dynops::{menu_for_word, DecRes, EncRes, WordOps};
use crate::model::{build_caught, gen_spec, support_of, Kind, ModelSpec, Repr};
use crate::rng::Rng;

#[derive(Clone, Debug, Serialize, Deserialize, PartialEq)]
pub struct SkewTrace {
    pub cfg: usize,
    pub range: bool,
    pub spec: ModelSpec,
    pub producer: Repr,
    pub twin: Repr,
    pub consumer: Repr,
    pub symbols: Vec<i64>,
}

macro_rules! viol {
    ($ctx:expr, $tag:expr, $($fmt:tt)*) => {
        if $ctx.on("C05") {
            return Err(Violation::new("C05", $tag, $ctx.op, format!($($fmt)*)));
        } else {
            return Ok(());
        }
    };
}

pub fn exec(t: &SkewTrace, ctx: &mut Ctx) -> Result<(), Violation> {
    crate::for_cfg!(t.cfg, |C| exec_cfg::<C>(t, ctx))
}

/// Which representations exist for a spec, decided statically (the generator must not run
/// conversion code: a broken conversion may abort the process).
pub fn reprs_for(spec: &ModelSpec) -> (Vec<Repr>, Vec<Repr>) {
    let lookup_ok = spec.pb <= 16 && spec.p <= 16;
    let mut enc = vec![Repr::Plain];
    let mut dec = vec![Repr::Plain];
    match &spec.kind {
        Kind::Table { .. } => {}
        Kind::Uniform { .. } => {
            if spec.pb <= 32 {
                enc.extend([Repr::GenEnc, Repr::FromTable, Repr::NonContig, Repr::NonContigPaged]);
                dec.extend([Repr::GenDec, Repr::FromTable, Repr::NonContig, Repr::NonContigPaged]);
                if lookup_ok { dec.push(Repr::GenLookup); }
            }
        }
        Kind::Cat { perfect, .. } => {
            enc.extend([Repr::View, Repr::GenEnc, Repr::FromTable, Repr::NonContig, Repr::NonContigPaged]);
            dec.extend([Repr::View, Repr::GenDec, Repr::FromTable, Repr::NonContig, Repr::NonContigPaged]);
            if !*perfect {
                enc.push(Repr::Lazy);
                dec.push(Repr::Lazy);
            }
            enc.push(Repr::NonContigCtor);
            dec.push(Repr::NonContigCtor);
            if lookup_ok {
                enc.extend([Repr::LookupBack, Repr::LookupCtor]);
                dec.extend([Repr::Lookup, Repr::GenLookup, Repr::LookupCtor, Repr::LookupBack, Repr::NonContigLookupCtor, Repr::NonContigLookupBack]);
            }
        }
        Kind::Fixed { .. } => {
            enc.extend([Repr::View, Repr::GenEnc, Repr::FromTable, Repr::NonContig, Repr::NonContigPaged]);
            dec.extend([Repr::View, Repr::GenDec, Repr::FromTable, Repr::NonContig, Repr::NonContigPaged]);
            if lookup_ok {
                enc.extend([Repr::LookupBack, Repr::LookupCtor]);
                dec.extend([Repr::Lookup, Repr::GenLookup, Repr::LookupCtor, Repr::LookupBack, Repr::NonContigLookupCtor, Repr::NonContigLookupBack]);
            }
        }
        Kind::Quant { .. } => {
            enc.extend([Repr::GenEnc, Repr::FromTable, Repr::NonContig, Repr::NonContigPaged]);
            dec.extend([Repr::GenDec, Repr::FromTable, Repr::NonContig, Repr::NonContigPaged]);
            if lookup_ok { dec.push(Repr::GenLookup); }
        }
    }
    (enc, dec)
}

fn exec_cfg<C: Ws>(t: &SkewTrace, ctx: &mut Ctx) -> Result<(), Violation> {
    if (t.spec.pb as u32) > C::WB {
        return Ok(());
    }
    let (encs, decs) = reprs_for(&t.spec);
    if !encs.contains(&t.producer) || !encs.contains(&t.twin) || !decs.contains(&t.consumer) {
        return Ok(());
    }
    ctx.stats.hit(&format!("repr-producer-{:?}", t.producer));
    ctx.stats.hit(&format!("repr-twin-{:?}", t.twin));
    ctx.stats.hit(&format!("repr-consumer-{:?}", t.consumer));
    let Some(base) = build_caught(&t.spec, Repr::Plain) else { return Ok(()) };
    let _ = base;
    // a representation that the library offers for this model must be constructible
    let mut get = |r: Repr, role: &str, ctx: &mut Ctx| -> Result<Option<crate::model::Built>, Violation> {
        match build_caught(&t.spec, r) {
            Some(b) => Ok(Some(b)),
            None => {
                if ctx.on("C05") {
                    return Err(Violation::new("C05", "representation-not-constructible", 0, format!("{} representation {:?} of {:?} could not be built (constructor error or panic)", role, r, t.spec)));
                }
                Ok(None)
            }
        }
    };
    let Some(prod) = get(t.producer, "producer", ctx)? else { return Ok(()) };
    let Some(twin) = get(t.twin, "twin", ctx)? else { return Ok(()) };
    let Some(cons) = get(t.consumer, "consumer", ctx)? else { return Ok(()) };
    if !prod.can_encode() || !twin.can_encode() || !cons.can_decode() {
        return Ok(());
    }
    let support = support_of(&t.spec.kind);
    ctx.stats.state(hash_mix(hash_mix(t.producer as u64, t.twin as u64), hash_mix(t.consumer as u64, hash_mix(t.cfg as u64, t.spec.p as u64))));
    if t.range {
        let mut e1 = RangeEncoder::<C::W, C::S>::new();
        let mut e2 = RangeEncoder::<C::W, C::S>::new();
        let mut sent = Vec::new();
        for (i, s) in t.symbols.iter().enumerate() {
            ctx.op = i;
            if !support.contains(s) { continue; }
            let r1 = <C::W as WordOps>::enc(&mut e1, &prod, *s);
            let r2 = <C::W as WordOps>::enc(&mut e2, &twin, *s);
            ctx.stats.hit("op-enc-pair");
            if r1 != EncRes::Ok || r2 != EncRes::Ok {
                viol!(ctx, "support-symbol-rejected-by-representation", "symbol {}: {:?} -> {:?}, {:?} -> {:?}", s, t.producer, r1, t.twin, r2);
            }
            if e1.state() != e2.state() || e1.bulk() != e2.bulk() {
                viol!(ctx, "representations-disagree-on-symbol", "symbol {}: {:?} gives (cum,prob)={:?}, {:?} gives {:?}", s, t.producer, prod.lcp64(*s), t.twin, twin.lcp64(*s));
            }
            sent.push(*s);
        }
        let words = e1.into_compressed().unwrap_infallible();
        let mut d = RangeDecoder::<C::W, C::S, _>::from_compressed(words).unwrap_infallible();
        for (k, s) in sent.iter().enumerate() {
            ctx.op = k;
            let got = <C::W as WordOps>::dec(&mut d, &cons);
            ctx.stats.hit("op-dec");
            if got != DecRes::Ok(*s) {
                viol!(ctx, "cross-representation-decode-mismatch", "symbol {} ({}): encoded with {:?}, decoded with {:?} -> {:?}", k, s, t.producer, t.consumer, got);
            }
        }
    } else {
        let mut e1 = AnsCoder::<C::W, C::S>::new();
        let mut e2 = AnsCoder::<C::W, C::S>::new();
        let mut sent = Vec::new();
        for (i, s) in t.symbols.iter().enumerate() {
            ctx.op = i;
            if !support.contains(s) { continue; }
            let r1 = <C::W as WordOps>::enc(&mut e1, &prod, *s);
            let r2 = <C::W as WordOps>::enc(&mut e2, &twin, *s);
            ctx.stats.hit("op-enc-pair");
            if r1 != EncRes::Ok || r2 != EncRes::Ok {
                viol!(ctx, "support-symbol-rejected-by-representation", "symbol {}: {:?} -> {:?}, {:?} -> {:?}", s, t.producer, r1, t.twin, r2);
            }
            if e1.state() != e2.state() || e1.bulk() != e2.bulk() {
                viol!(ctx, "representations-disagree-on-symbol", "symbol {}: {:?} gives (cum,prob)={:?}, {:?} gives {:?}", s, t.producer, prod.lcp64(*s), t.twin, twin.lcp64(*s));
            }
            sent.push(*s);
        }
        for (k, s) in sent.iter().enumerate().rev() {
            ctx.op = k;
            let got = <C::W as WordOps>::dec(&mut e1, &cons);
            ctx.stats.hit("op-dec");
            if got != DecRes::Ok(*s) {
                viol!(ctx, "cross-representation-decode-mismatch", "symbol {} ({}): encoded with {:?}, decoded with {:?} -> {:?}", k, s, t.producer, t.consumer, got);
            }
        }
    }
    ctx.stats.hit("messages-roundtripped");
    Ok(())
}

pub fn generate(seed: u64, _prop: &str, _thorough: bool) -> SkewTrace {
    let mut root = Rng::new(seed);
    let mut rng = root.fork("workload");
    let mut bias = root.fork("bias");
    let cfg = bias.usize(CONFIGS.len());
    let (wb, _) = CONFIGS[cfg];
    let menu: Vec<(u8, u8)> = menu_for_word(wb).into_iter().filter(|(pb, _)| *pb <= 32).collect();
    let (pb, p) = *rng.pick(&menu);
    let max_syms = if rng.chance(1, 6) { 300 } else { 2 + rng.usize(40) };
    // library models only: harness tables have a single representation
    let mut spec = gen_spec(&mut rng, pb, p, max_syms, 100);
    for _ in 0..10 {
        if !matches!(spec.kind, Kind::Table { .. }) { break; }
        spec = gen_spec(&mut rng, pb, p, max_syms, 100);
    }
    let (encs, decs) = reprs_for(&spec);
    let producer = *bias.pick(&encs);
    let twin = *bias.pick(&encs);
    let consumer = *bias.pick(&decs);
    let support = support_of(&spec.kind);
    let symbols: Vec<i64> = if rng.chance(1, 2) && support.len() <= 300 {
        // sweep: every symbol of the support, in random order
        let mut v = support.clone();
        for i in (1..v.len()).rev() {
            let j = rng.usize(i + 1);
            v.swap(i, j);
        }
        v
    } else {
        (0..rng.len(12, 80)).map(|_| *rng.pick(&support)).collect()
    };
    SkewTrace { cfg, range: bias.chance(1, 2), spec, producer, twin, consumer, symbols }
}
