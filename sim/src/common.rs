//! Shared plumbing: configurations, violations, statistics.

use std::collections::{BTreeMap, BTreeSet};

use constriction::BitArray;
use num_traits::AsPrimitive;
use serde::{Deserialize, Serialize};

use crate::dynops::WordOps;

/// (Word bits, State bits)
pub const CONFIGS: &[(u32, u32)] =
    &[(8, 16), (8, 32), (8, 64), (16, 32), (16, 64), (32, 64), (32, 128), (64, 128)];

/// bounds bundle for generic executors
pub trait Ws: 'static {
    type W: WordOps + crate::chain::ChainWord + Into<Self::S> + AsPrimitive<Self::S> + Default + Send + Sync;
    type S: BitArray + AsPrimitive<Self::W> + AsPrimitive<u128> + From<Self::W> + Send + Sync;
    const WB: u32;
    const SB: u32;
}

macro_rules! ws {
    ($name:ident, $W:ty, $S:ty) => {
        pub struct $name;
        impl Ws for $name {
            type W = $W;
            type S = $S;
            const WB: u32 = <$W>::BITS;
            const SB: u32 = <$S>::BITS;
        }
    };
}
ws!(C8_16, u8, u16);
ws!(C8_32, u8, u32);
ws!(C8_64, u8, u64);
ws!(C16_32, u16, u32);
ws!(C16_64, u16, u64);
ws!(C32_64, u32, u64);
ws!(C32_128, u32, u128);
ws!(C64_128, u64, u128);

#[macro_export]
macro_rules! for_cfg {
    ($idx:expr, |$C:ident| $body:expr) => {
        match $idx {
            0 => { type $C = $crate::common::C8_16; $body }
            1 => { type $C = $crate::common::C8_32; $body }
            2 => { type $C = $crate::common::C8_64; $body }
            3 => { type $C = $crate::common::C16_32; $body }
            4 => { type $C = $crate::common::C16_64; $body }
            5 => { type $C = $crate::common::C32_64; $body }
            6 => { type $C = $crate::common::C32_128; $body }
            7 => { type $C = $crate::common::C64_128; $body }
            _ => panic!("harness: bad config index"),
        }
    };
}

#[inline]
pub fn w_from<W: BitArray>(x: u64) -> W {
    crate::model::from_u64::<W>(x)
}
#[inline]
pub fn w_to<W: BitArray>(x: W) -> u64 {
    x.to_u64().expect("word fits u64")
}
#[inline]
pub fn s_to<S: BitArray + AsPrimitive<u128>>(x: S) -> u128 {
    x.as_()
}
pub fn s_from<S: BitArray>(x: u128) -> S {
    let mut r = S::zero();
    let mut i = 0;
    while i < S::BITS.min(128) {
        if (x >> i) & 1 == 1 {
            r = r | (S::one() << i);
        }
        i += 1;
    }
    r
}

#[derive(Clone, Debug, Serialize, Deserialize, PartialEq, Eq)]
pub struct Violation {
    pub prop: String,
    /// stable class of the violation, e.g. "lifo-symbol-mismatch"
    pub tag: String,
    /// index of the op at which it was observed
    pub op: usize,
    pub detail: String,
}

impl Violation {
    pub fn new(prop: &str, tag: &str, op: usize, detail: String) -> Self {
        Violation { prop: prop.to_string(), tag: tag.to_string(), op, detail }
    }
    pub fn class(&self) -> String {
        format!("{}/{}", self.prop, self.tag)
    }
}

/// Measured reach of a batch of runs.
#[derive(Clone, Debug, Default, Serialize, Deserialize)]
pub struct Stats {
    pub counters: BTreeMap<String, u64>,
    /// hashes of abstract states reached (stated measure per world)
    pub states: BTreeSet<u64>,
    /// hashes of whole runs that were non-trivial (for distinct_nontrivial)
    pub nontrivial: BTreeSet<u64>,
    /// violations of *other* properties noticed while checking this one (not reported here)
    pub foreign: BTreeMap<String, u64>,
}

impl Stats {
    #[inline]
    pub fn hit(&mut self, name: &str) {
        self.add(name, 1);
    }
    #[inline]
    pub fn add(&mut self, name: &str, n: u64) {
        if let Some(c) = self.counters.get_mut(name) {
            *c += n;
        } else {
            self.counters.insert(name.to_string(), n);
        }
    }
    pub fn state(&mut self, h: u64) {
        if self.states.len() < 200_000 {
            self.states.insert(h);
        }
    }
    pub fn merge(&mut self, other: &Stats) {
        for (k, v) in &other.counters {
            self.add(k, *v);
        }
        for (k, v) in &other.foreign {
            *self.foreign.entry(k.clone()).or_insert(0) += *v;
        }
        self.states.extend(other.states.iter().cloned());
        self.nontrivial.extend(other.nontrivial.iter().cloned());
    }
}

pub fn hash_words(ws: &[u64]) -> u64 {
    let mut h = 0xcbf2_9ce4_8422_2325u64 ^ (ws.len() as u64).wrapping_mul(0x9E37_79B9_7F4A_7C15);
    for &w in ws {
        h ^= w;
        h = h.wrapping_mul(0x1000_0000_01b3);
        h ^= h >> 29;
    }
    h
}
pub fn hash_mix(a: u64, b: u64) -> u64 {
    let mut x = a ^ b.rotate_left(23).wrapping_mul(0x9E37_79B9_7F4A_7C15);
    crate::rng::splitmix(&mut x)
}

/// Context handed to every executor: which property is being decided (its oracles report,
/// all others only count), and where to record reach.
pub struct Ctx<'a> {
    pub prop: &'a str,
    pub stats: &'a mut Stats,
    pub op: usize,
}

impl<'a> Ctx<'a> {
    /// Report a failed oracle of property `prop`.  Returns `Err` iff it is the property being
    /// decided; otherwise the failure is only counted (its own check reports it).
    pub fn fail(&mut self, prop: &str, tag: &str, detail: impl FnOnce() -> String) -> Result<(), Violation> {
        if prop == self.prop {
            Err(Violation::new(prop, tag, self.op, detail()))
        } else {
            *self.stats.foreign.entry(format!("{}/{}", prop, tag)).or_insert(0) += 1;
            Ok(())
        }
    }
    /// Is the oracle / observation of `prop` active?  While C20 is being decided *every*
    /// observation is active: C20 is about the programs the explorers generate, and the
    /// queries, views and exports that the oracles of the other properties make are part of
    /// those programs.  Their verdicts are not C20's business and are dropped by the harness
    /// (`run_trace`); only aborts, fatal signals and overflow panics count there.
    pub fn on(&self, prop: &str) -> bool {
        self.prop == prop || self.prop == "C20"
    }
    pub fn any(&self, props: &[&str]) -> bool {
        props.contains(&self.prop) || self.prop == "C20"
    }
}
