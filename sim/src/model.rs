//! Model zoo: serialisable `ModelSpec` -> object-safe `FnModel<Prob>` wrappers around
//!  * `TableModel` (harness-defined, trusted base: explicit fixed-point table), and
//!  * the library's own entropy models in all their representations (real code).
//!
//! Coders are instantiated once per (Word, State, Prob, PRECISION); the model behind a
//! `Dyn<Prob, P>` is a pair of boxed closures, so monomorphisation stays bounded.

use std::rc::Rc;

use constriction::stream::model::{
    ContiguousCategoricalEntropyModel, ContiguousLookupDecoderModel, DecoderModel, EncoderModel,
    EntropyModel, IterableEntropyModel, LazyContiguousCategoricalEntropyModel, LeakyQuantizer,
    NonContiguousCategoricalDecoderModel, NonContiguousCategoricalEncoderModel,
    NonContiguousLookupDecoderModel, UniformModel,
};
use constriction::{BitArray, NonZeroBitArray};
use probability::distribution::{Binomial, Cauchy, Gaussian, Laplace};
use serde::{Deserialize, Serialize};

use crate::rng::Rng;

// ---------------------------------------------------------------------------------------
// object-safe model

pub type EncFn<Prob> = Box<dyn Fn(i64) -> Option<(Prob, <Prob as BitArray>::NonZero)>>;
pub type DecFn<Prob> = Box<dyn Fn(Prob) -> (i64, Prob, <Prob as BitArray>::NonZero)>;

pub struct FnModel<Prob: BitArray> {
    pub enc: Option<EncFn<Prob>>,
    pub dec: Option<DecFn<Prob>>,
}

/// What the coders see.  `Copy`, so usable with the iid batch methods.
pub struct Dyn<'a, Prob: BitArray, const P: usize>(pub &'a FnModel<Prob>);
impl<'a, Prob: BitArray, const P: usize> Clone for Dyn<'a, Prob, P> {
    fn clone(&self) -> Self {
        *self
    }
}
impl<'a, Prob: BitArray, const P: usize> Copy for Dyn<'a, Prob, P> {}

impl<'a, Prob: BitArray, const P: usize> EntropyModel<P> for Dyn<'a, Prob, P> {
    type Symbol = i64;
    type Probability = Prob;
}
impl<'a, Prob: BitArray, const P: usize> EncoderModel<P> for Dyn<'a, Prob, P> {
    #[inline]
    fn left_cumulative_and_probability(
        &self,
        symbol: impl core::borrow::Borrow<i64>,
    ) -> Option<(Prob, Prob::NonZero)> {
        (self.0.enc.as_ref().expect("model cannot encode"))(*symbol.borrow())
    }
}
impl<'a, Prob: BitArray, const P: usize> DecoderModel<P> for Dyn<'a, Prob, P> {
    #[inline]
    fn quantile_function(&self, quantile: Prob) -> (i64, Prob, Prob::NonZero) {
        (self.0.dec.as_ref().expect("model cannot decode"))(quantile)
    }
}

pub enum ModelBox {
    U8(FnModel<u8>),
    U16(FnModel<u16>),
    U32(FnModel<u32>),
    U64(FnModel<u64>),
}

pub struct Built {
    pub pb: u8,
    pub p: u8,
    pub mb: ModelBox,
    /// the symbols of the declared support, in cumulative order
    pub support: Vec<i64>,
}

macro_rules! on_mb {
    ($mb:expr, $m:ident => $e:expr) => {
        match $mb {
            ModelBox::U8($m) => $e,
            ModelBox::U16($m) => $e,
            ModelBox::U32($m) => $e,
            ModelBox::U64($m) => $e,
        }
    };
}

impl Built {
    pub fn can_encode(&self) -> bool {
        on_mb!(&self.mb, m => m.enc.is_some())
    }
    pub fn can_decode(&self) -> bool {
        on_mb!(&self.mb, m => m.dec.is_some())
    }
    /// (cum, prob) widened to u64; prob of 2^64 cannot occur (no symbol has probability one)
    pub fn lcp64(&self, sym: i64) -> Option<(u64, u64)> {
        on_mb!(&self.mb, m => (m.enc.as_ref().expect("cannot encode"))(sym)
            .map(|(c, p)| (to_u64(c), to_u64(p.get()))))
    }
    pub fn quant64(&self, q: u64) -> (i64, u64, u64) {
        on_mb!(&self.mb, m => {
            let (s, c, p) = (m.dec.as_ref().expect("cannot decode"))(from_u64(q));
            (s, to_u64(c), to_u64(p.get()))
        })
    }
    pub fn in_support(&self, sym: i64) -> bool {
        self.support.contains(&sym)
    }
}

#[inline]
pub fn to_u64<T: BitArray>(x: T) -> u64 {
    x.to_u64().expect("fits")
}
#[inline]
pub fn from_u64<T: BitArray>(x: u64) -> T {
    // truncating conversion
    let mut r = T::zero();
    let bits = T::BITS.min(64);
    let mut i = 0;
    while i < bits {
        if (x >> i) & 1 == 1 {
            r = r | (T::one() << i);
        }
        i += 1;
    }
    r
}

// ---------------------------------------------------------------------------------------
// specs

#[derive(Clone, Debug, Serialize, Deserialize, PartialEq)]
pub enum Fam {
    Gaussian,
    Laplace,
    Cauchy,
    Binomial,
}

/// How a model is represented (C05: all of these are "the same model").
#[derive(Clone, Copy, Debug, Serialize, Deserialize, PartialEq, Eq, Hash)]
pub enum Repr {
    /// the natural owned representation
    Plain,
    /// `as_view()` of the owner
    View,
    /// lazily evaluated categorical (`Cat` with the fast constructor only)
    Lazy,
    /// `to_generic_encoder_model()` (encode only)
    GenEnc,
    /// `to_generic_decoder_model()` (decode only)
    GenDec,
    /// `to_generic_lookup_decoder_model()` (decode only; Prob u8/u16)
    GenLookup,
    /// `to_lookup_decoder_model()` of a contiguous categorical (decode only; Prob u8/u16)
    Lookup,
    /// rebuilt from its own `symbol_table()` via `from_nonzero_fixed_point_probabilities`
    FromTable,
    /// non-contiguous encoder/decoder pair built from (identity symbols, same table)
    NonContig,
    /// lookup decoder built directly with the constructor of the same name (float tables:
    /// `from_floating_point_probabilities_{fast,perfect}`; fixed tables:
    /// `from_nonzero_fixed_point_probabilities`); decode only, Prob u8/u16
    LookupCtor,
    /// `to_lookup_decoder_model()` converted back: encodes through `as_contiguous_categorical()`,
    /// decodes through `into_contiguous_categorical()`
    LookupBack,
    /// non-contiguous encoder / decoder built with the same-named float constructor and
    /// identity symbols (float tables only)
    NonContigCtor,
    /// non-contiguous lookup decoder built with the same-named constructor and identity symbols
    NonContigLookupCtor,
    /// the same, converted back with `into_non_contiguous_categorical()`
    NonContigLookupBack,
    /// like `NonContig`, but the symbol table is read in two pages: `take(k)` and `skip(k)`
    /// (iterator adaptors go through `nth`, which an iterator type may override)
    NonContigPaged,
}

#[derive(Clone, Debug, Serialize, Deserialize, PartialEq)]
pub enum Kind {
    /// harness-defined explicit table: symbols first, first+1, ... with these probabilities
    Table { first: i64, probs: Vec<u64> },
    Uniform { n: u64 },
    /// categorical from floats; `f32`: use f32 input; `perfect`: perfect constructor
    Cat { probs: Vec<f64>, f32: bool, perfect: bool },
    /// categorical from fixed-point table via the library constructor
    Fixed { probs: Vec<u64> },
    /// leakily quantized distribution over lo..=hi
    /// `sym`: native symbol type of the quantizer: 0 = i32 (default), 1 = u8, 2 = i8, 3 = i16, 4 = u16
    Quant { fam: Fam, a: f64, b: f64, lo: i32, hi: i32, #[serde(default)] sym: u8 },
}

#[derive(Clone, Debug, Serialize, Deserialize, PartialEq)]
pub struct ModelSpec {
    /// bits of the Probability type: 8, 16, 32, 64
    pub pb: u8,
    /// PRECISION
    pub p: u8,
    pub kind: Kind,
}

/// compile-time menu of (Probability bits, PRECISION)
pub const MENU: &[(u8, u8)] = &[
    (8, 1),
    (8, 3),
    (8, 5),
    (8, 8),
    (16, 1),
    (16, 9),
    (16, 12),
    (16, 16),
    (32, 1),
    (32, 12),
    (32, 24),
    (32, 32),
    (64, 24),
    (64, 64),
];

/// run `$body` with `$Prob` / `$P` bound to the types for runtime `(pb, p)`
#[macro_export]
macro_rules! for_pp {
    ($pb:expr, $p:expr, |$Prob:ident, $P:ident| $body:expr, $else:expr) => {
        match ($pb, $p) {
            (8, 1) => { type $Prob = u8; const $P: usize = 1; $body }
            (8, 3) => { type $Prob = u8; const $P: usize = 3; $body }
            (8, 5) => { type $Prob = u8; const $P: usize = 5; $body }
            (8, 8) => { type $Prob = u8; const $P: usize = 8; $body }
            (16, 1) => { type $Prob = u16; const $P: usize = 1; $body }
            (16, 9) => { type $Prob = u16; const $P: usize = 9; $body }
            (16, 12) => { type $Prob = u16; const $P: usize = 12; $body }
            (16, 16) => { type $Prob = u16; const $P: usize = 16; $body }
            (32, 1) => { type $Prob = u32; const $P: usize = 1; $body }
            (32, 12) => { type $Prob = u32; const $P: usize = 12; $body }
            (32, 24) => { type $Prob = u32; const $P: usize = 24; $body }
            (32, 32) => { type $Prob = u32; const $P: usize = 32; $body }
            (64, 24) => { type $Prob = u64; const $P: usize = 24; $body }
            (64, 64) => { type $Prob = u64; const $P: usize = 64; $body }
            _ => $else,
        }
    };
}

// ---------------------------------------------------------------------------------------
// TableModel (trusted base)

pub struct TableModel<Prob: BitArray> {
    first: i64,
    /// cum[i] = left cumulative of symbol first+i (as u64 / u128-safe)
    cum: Vec<u64>,
    prob: Vec<u64>,
    _p: core::marker::PhantomData<Prob>,
}

pub fn table_valid(pb: u8, p: u8, probs: &[u64]) -> bool {
    if p == 0 || p > pb || probs.len() < 2 {
        return false;
    }
    let total: u128 = probs.iter().map(|&x| x as u128).sum();
    probs.iter().all(|&x| x > 0) && total == 1u128 << p
}

impl<Prob: BitArray> TableModel<Prob> {
    pub fn new(first: i64, probs: &[u64]) -> Self {
        let mut cum = Vec::with_capacity(probs.len());
        let mut acc = 0u64;
        for &p in probs {
            cum.push(acc);
            acc = acc.wrapping_add(p);
        }
        TableModel { first, cum, prob: probs.to_vec(), _p: Default::default() }
    }
    fn lcp(&self, sym: i64) -> Option<(Prob, Prob::NonZero)> {
        let i = sym.checked_sub(self.first)?;
        if i < 0 || i as usize >= self.prob.len() {
            return None;
        }
        let i = i as usize;
        Some((from_u64(self.cum[i]), from_u64::<Prob>(self.prob[i]).into_nonzero().expect("nonzero")))
    }
    fn quant(&self, q: Prob) -> (i64, Prob, Prob::NonZero) {
        let q = to_u64(q);
        // binary search for last i with cum[i] <= q
        let i = match self.cum.binary_search(&q) {
            Ok(i) => i,
            Err(i) => i - 1,
        };
        (
            self.first + i as i64,
            from_u64(self.cum[i]),
            from_u64::<Prob>(self.prob[i]).into_nonzero().expect("nonzero"),
        )
    }
}

// ---------------------------------------------------------------------------------------
// symbol conversions for the library's native symbol types

pub trait SymT: Copy + 'static {
    fn from_i64(x: i64) -> Option<Self>;
    fn to_i64(self) -> i64;
}
impl SymT for usize {
    /// negative values arrive the way a `-1` sentinel does in user code: `x as usize`
    /// (`usize::MAX`, ...); such values are never inside a support
    fn from_i64(x: i64) -> Option<Self> {
        Some(x as usize)
    }
    fn to_i64(self) -> i64 {
        self as i64
    }
}
impl SymT for i32 {
    fn from_i64(x: i64) -> Option<Self> {
        i32::try_from(x).ok()
    }
    fn to_i64(self) -> i64 {
        self as i64
    }
}
macro_rules! symt_small {
    ($($T:ty),*) => { $(
        impl SymT for $T {
            fn from_i64(x: i64) -> Option<Self> { <$T>::try_from(x).ok() }
            fn to_i64(self) -> i64 { self as i64 }
        }
    )* };
}
symt_small!(u8, i8, i16, u16);

impl SymT for i64 {
    fn from_i64(x: i64) -> Option<Self> {
        Some(x)
    }
    fn to_i64(self) -> i64 {
        self
    }
}

fn enc_of<M, Sy, Prob, const P: usize>(m: Rc<M>) -> EncFn<Prob>
where
    M: EncoderModel<P, Symbol = Sy, Probability = Prob> + 'static,
    Sy: SymT,
    Prob: BitArray,
{
    // a value that the native symbol type cannot represent is outside every support
    Box::new(move |s| Sy::from_i64(s).and_then(|s| m.left_cumulative_and_probability(s)))
}
fn dec_of<M, Sy, Prob, const P: usize>(m: Rc<M>) -> DecFn<Prob>
where
    M: DecoderModel<P, Symbol = Sy, Probability = Prob> + 'static,
    Sy: SymT,
    Prob: BitArray,
{
    Box::new(move |q| {
        let (s, c, p) = m.quantile_function(q);
        (s.to_i64(), c, p)
    })
}
fn both_of<M, Sy, Prob, const P: usize>(m: M) -> FnModel<Prob>
where
    M: EncoderModel<P, Symbol = Sy, Probability = Prob>
        + DecoderModel<P, Symbol = Sy, Probability = Prob>
        + 'static,
    Sy: SymT,
    Prob: BitArray,
{
    let m = Rc::new(m);
    FnModel { enc: Some(enc_of::<M, Sy, Prob, P>(m.clone())), dec: Some(dec_of::<M, Sy, Prob, P>(m)) }
}
fn enc_only<M, Sy, Prob, const P: usize>(m: M) -> FnModel<Prob>
where
    M: EncoderModel<P, Symbol = Sy, Probability = Prob> + 'static,
    Sy: SymT,
    Prob: BitArray,
{
    FnModel { enc: Some(enc_of::<M, Sy, Prob, P>(Rc::new(m))), dec: None }
}
fn dec_only<M, Sy, Prob, const P: usize>(m: M) -> FnModel<Prob>
where
    M: DecoderModel<P, Symbol = Sy, Probability = Prob> + 'static,
    Sy: SymT,
    Prob: BitArray,
{
    FnModel { enc: None, dec: Some(dec_of::<M, Sy, Prob, P>(Rc::new(m))) }
}

/// Derive all representations that hang off an iterable model with native symbol `Sy`.
macro_rules! generic_reprs {
    ($m:expr, $Sy:ty, $Prob:ty, $P:ident, $repr:expr, lookup = $lookup:tt) => {{
        let m = $m;
        match $repr {
            Repr::GenEnc => Some(enc_only::<_, $Sy, $Prob, $P>(m.to_generic_encoder_model())),
            Repr::GenDec => Some(dec_only::<_, $Sy, $Prob, $P>(m.to_generic_decoder_model())),
            Repr::GenLookup => generic_reprs!(@lookup $lookup, m, $Sy, $Prob, $P),
            Repr::NonContig | Repr::NonContigPaged => {
                let table: Vec<_> = if $repr == Repr::NonContigPaged {
                    let n = m.symbol_table().count();
                    let k = (n / 2).max(1);
                    let mut t: Vec<_> = m.symbol_table().take(k).collect();
                    t.extend(m.symbol_table().skip(k));
                    // every second entry again through `step_by`, which must agree
                    let even: Vec<_> = m.symbol_table().step_by(2).collect();
                    if even.len() != (n + 1) / 2 || even.iter().enumerate().any(|(i, e)| e.0 != t[2 * i].0 || e.1 != t[2 * i].1) {
                        return None;
                    }
                    t
                } else {
                    m.symbol_table().collect()
                };
                let syms: Vec<$Sy> = table.iter().map(|t| t.0).collect();
                let probs: Vec<$Prob> = table.iter().map(|t| t.2.get()).collect();
                let e = NonContiguousCategoricalEncoderModel::<$Sy, $Prob, $P>::from_symbols_and_nonzero_fixed_point_probabilities(
                    syms.iter().cloned(), probs.iter(), false);
                let d = NonContiguousCategoricalDecoderModel::<$Sy, $Prob, Vec<($Prob, $Sy)>, $P>::from_symbols_and_nonzero_fixed_point_probabilities(
                    syms.iter().cloned(), probs.iter(), false);
                match (e, d) {
                    (Ok(e), Ok(d)) => Some(FnModel {
                        enc: Some(enc_of::<_, $Sy, $Prob, $P>(Rc::new(e))),
                        dec: Some(dec_of::<_, $Sy, $Prob, $P>(Rc::new(d))),
                    }),
                    _ => None,
                }
            }
            _ => None,
        }
    }};
    (@lookup yes, $m:ident, $Sy:ty, $Prob:ty, $P:ident) => {
        if $P <= 16 { Some(dec_only::<_, $Sy, $Prob, $P>($m.to_generic_lookup_decoder_model())) } else { None }
    };
    (@lookup no, $m:ident, $Sy:ty, $Prob:ty, $P:ident) => {
        None
    };
}

macro_rules! contiguous_lookup {
    (yes, $m:ident, $Prob:ty, $P:ident) => {
        if $P <= 16 { Some(dec_only::<_, usize, $Prob, $P>($m.to_lookup_decoder_model())) } else { None }
    };
    (no, $m:ident, $Prob:ty, $P:ident) => {
        None
    };
}

/// run a float constructor with the table as f32 or f64, fast or perfect
macro_rules! float_ctor {
    ($probs:expr, $f32:expr, $perfect:expr, |$pr:ident| fast: $fast:expr, perfect: $perf:expr) => {
        if $f32 {
            let v: Vec<f32> = $probs.iter().map(|&x| x as f32).collect();
            let $pr = &v[..];
            if $perfect { $perf } else { $fast }
        } else {
            let $pr = &$probs[..];
            if $perfect { $perf } else { $fast }
        }
    };
}

/// representations of a float table that are built by their own same-named constructors
macro_rules! cat_ctor_reprs {
    (yes, $probs:expr, $f32:expr, $perfect:expr, $repr:expr, $Prob:ty, $P:ident) => {{
        type L<const P: usize> = ContiguousLookupDecoderModel<$Prob, Vec<$Prob>, Box<[$Prob]>, P>;
        type NL<const P: usize> = NonContiguousLookupDecoderModel<usize, $Prob, Vec<($Prob, usize)>, Box<[$Prob]>, P>;
        let n = $probs.len();
        match $repr {
            Repr::LookupCtor if $P <= 16 => float_ctor!($probs, $f32, $perfect, |pr|
                fast: L::<$P>::from_floating_point_probabilities_fast(pr, None),
                perfect: L::<$P>::from_floating_point_probabilities_perfect(pr))
                .ok().map(|m| {
                    // decodes through the lookup table, encodes through the encoder view the lookup
                    // model hands out (`as_contiguous_categorical()`)
                    let l = Rc::new(m);
                    let l2 = l.clone();
                    FnModel {
                        enc: Some(Box::new(move |s| usize::from_i64(s).and_then(|s| l2.as_contiguous_categorical().left_cumulative_and_probability(s)))),
                        dec: Some(dec_of::<_, usize, $Prob, $P>(l)),
                    }
                }),
            Repr::NonContigLookupCtor if $P <= 16 => float_ctor!($probs, $f32, $perfect, |pr|
                fast: NL::<$P>::from_symbols_and_floating_point_probabilities_fast(0..n, pr, None),
                perfect: NL::<$P>::from_symbols_and_floating_point_probabilities_perfect(0..n, pr))
                .ok().map(|m| dec_only::<_, usize, $Prob, $P>(m)),
            Repr::NonContigLookupBack if $P <= 16 => float_ctor!($probs, $f32, $perfect, |pr|
                fast: NL::<$P>::from_symbols_and_floating_point_probabilities_fast(0..n, pr, None),
                perfect: NL::<$P>::from_symbols_and_floating_point_probabilities_perfect(0..n, pr))
                .ok().map(|m| dec_only::<_, usize, $Prob, $P>(m.into_non_contiguous_categorical())),
            r => cat_ctor_reprs!(no, $probs, $f32, $perfect, r, $Prob, $P),
        }
    }};
    (no, $probs:expr, $f32:expr, $perfect:expr, $repr:expr, $Prob:ty, $P:ident) => {{
        type NE<const P: usize> = NonContiguousCategoricalEncoderModel<usize, $Prob, P>;
        type ND<const P: usize> = NonContiguousCategoricalDecoderModel<usize, $Prob, Vec<($Prob, usize)>, P>;
        let n = $probs.len();
        match $repr {
            Repr::NonContigCtor => {
                let e = float_ctor!($probs, $f32, $perfect, |pr|
                    fast: NE::<$P>::from_symbols_and_floating_point_probabilities_fast(0..n, pr, None),
                    perfect: NE::<$P>::from_symbols_and_floating_point_probabilities_perfect(0..n, pr));
                let d = float_ctor!($probs, $f32, $perfect, |pr|
                    fast: ND::<$P>::from_symbols_and_floating_point_probabilities_fast(0..n, pr, None),
                    perfect: ND::<$P>::from_symbols_and_floating_point_probabilities_perfect(0..n, pr));
                match (e, d) {
                    (Ok(e), Ok(d)) => Some(FnModel {
                        enc: Some(enc_of::<_, usize, $Prob, $P>(Rc::new(e))),
                        dec: Some(dec_of::<_, usize, $Prob, $P>(Rc::new(d))),
                    }),
                    _ => None,
                }
            }
            _ => None,
        }
    }};
}

/// the same for a fixed-point table
macro_rules! fixed_ctor_reprs {
    (yes, $pr:expr, $repr:expr, $Prob:ty, $P:ident) => {{
        type L<const P: usize> = ContiguousLookupDecoderModel<$Prob, Vec<$Prob>, Box<[$Prob]>, P>;
        type NL<const P: usize> = NonContiguousLookupDecoderModel<usize, $Prob, Vec<($Prob, usize)>, Box<[$Prob]>, P>;
        let n = $pr.len();
        match $repr {
            Repr::LookupCtor if $P <= 16 => L::<$P>::from_nonzero_fixed_point_probabilities($pr.iter(), false)
            .ok().map(|m| {
                    // decodes through the lookup table, encodes through the encoder view the lookup
                    // model hands out (`as_contiguous_categorical()`)
                    let l = Rc::new(m);
                    let l2 = l.clone();
                    FnModel {
                        enc: Some(Box::new(move |s| usize::from_i64(s).and_then(|s| l2.as_contiguous_categorical().left_cumulative_and_probability(s)))),
                        dec: Some(dec_of::<_, usize, $Prob, $P>(l)),
                    }
                }),
            Repr::NonContigLookupCtor if $P <= 16 => NL::<$P>::from_symbols_and_nonzero_fixed_point_probabilities(0..n, $pr.iter(), false)
                .ok().map(|m| dec_only::<_, usize, $Prob, $P>(m)),
            Repr::NonContigLookupBack if $P <= 16 => NL::<$P>::from_symbols_and_nonzero_fixed_point_probabilities(0..n, $pr.iter(), false)
                .ok().map(|m| dec_only::<_, usize, $Prob, $P>(m.into_non_contiguous_categorical())),
            _ => None,
        }
    }};
    (no, $pr:expr, $repr:expr, $Prob:ty, $P:ident) => {
        None
    };
}

macro_rules! contiguous_lookup_back {
    (yes, $m:ident, $Prob:ty, $P:ident) => {
        if $P <= 16 {
            let l = Rc::new($m.to_lookup_decoder_model());
            let owned = $m.to_lookup_decoder_model().into_contiguous_categorical();
            Some(FnModel {
                enc: Some(Box::new(move |s| usize::from_i64(s).and_then(|s| l.as_contiguous_categorical().left_cumulative_and_probability(s)))),
                dec: Some(dec_of::<_, usize, $Prob, $P>(Rc::new(owned))),
            })
        } else {
            None
        }
    };
    (no, $m:ident, $Prob:ty, $P:ident) => {
        None
    };
}

macro_rules! lib_builder {
    ($name:ident, $Prob:ty, lookup = $lookup:tt) => {
        /// Build a library model; `None` if the constructor refuses or the representation
        /// does not exist for this kind.  Panics of constructors propagate (caught by callers).
        fn $name<const P: usize>(kind: &Kind, repr: Repr) -> Option<FnModel<$Prob>> {
            type Cat<const P: usize> = ContiguousCategoricalEntropyModel<$Prob, Vec<$Prob>, P>;
            match kind {
                Kind::Table { .. } => unreachable!(),
                Kind::Uniform { n } => {
                    let m = UniformModel::<$Prob, P>::new(*n as usize);
                    match repr {
                        Repr::Plain | Repr::View => Some(both_of::<_, usize, $Prob, P>(m)),
                        Repr::FromTable => {
                            let probs: Vec<$Prob> = m.symbol_table().map(|t| t.2.get()).collect();
                            Cat::<P>::from_nonzero_fixed_point_probabilities(probs.iter(), false)
                                .ok()
                                .map(|m| both_of::<_, usize, $Prob, P>(m))
                        }
                        r => generic_reprs!(&m, usize, $Prob, P, r, lookup = $lookup),
                    }
                }
                Kind::Cat { probs, f32: use_f32, perfect } => {
                    if matches!(repr, Repr::LookupCtor | Repr::NonContigCtor | Repr::NonContigLookupCtor | Repr::NonContigLookupBack) {
                        return cat_ctor_reprs!($lookup, probs, *use_f32, *perfect, repr, $Prob, P);
                    }
                    if repr == Repr::Lazy {
                        if *perfect {
                            return None;
                        }
                        return if *use_f32 {
                            let pr: Vec<f32> = probs.iter().map(|&x| x as f32).collect();
                            LazyContiguousCategoricalEntropyModel::<$Prob, f32, Vec<f32>, P>::from_floating_point_probabilities_fast(pr, None)
                                .ok()
                                .map(|m| both_of::<_, usize, $Prob, P>(m))
                        } else {
                            LazyContiguousCategoricalEntropyModel::<$Prob, f64, Vec<f64>, P>::from_floating_point_probabilities_fast(probs.clone(), None)
                                .ok()
                                .map(|m| both_of::<_, usize, $Prob, P>(m))
                        };
                    }
                    let m = if *use_f32 {
                        let pr: Vec<f32> = probs.iter().map(|&x| x as f32).collect();
                        if *perfect {
                            Cat::<P>::from_floating_point_probabilities_perfect(&pr)
                        } else {
                            Cat::<P>::from_floating_point_probabilities_fast(&pr, None)
                        }
                    } else if *perfect {
                        Cat::<P>::from_floating_point_probabilities_perfect(probs)
                    } else {
                        Cat::<P>::from_floating_point_probabilities_fast(probs, None)
                    }
                    .ok()?;
                    contiguous_reprs::<P>(m, repr)
                }
                Kind::Fixed { probs } => {
                    let pr: Vec<$Prob> = probs.iter().map(|&x| from_u64::<$Prob>(x)).collect();
                    if matches!(repr, Repr::LookupCtor | Repr::NonContigLookupCtor | Repr::NonContigLookupBack) {
                        return fixed_ctor_reprs!($lookup, pr, repr, $Prob, P);
                    }
                    let m = Cat::<P>::from_nonzero_fixed_point_probabilities(pr.iter(), false).ok()?;
                    contiguous_reprs::<P>(m, repr)
                }
                Kind::Quant { fam, a, b, lo, hi, sym } => {
                    macro_rules! with_sym {
                        ($Sy:ty) => {{
                            let (Ok(l), Ok(h)) = (<$Sy>::try_from(*lo), <$Sy>::try_from(*hi)) else { return None };
                            let q = LeakyQuantizer::<f64, $Sy, $Prob, P>::new(l..=h);
                            match fam {
                                Fam::Gaussian => quant_reprs::<_, $Sy, P>(q, Gaussian::new(*a, *b), repr),
                                Fam::Laplace => quant_reprs::<_, $Sy, P>(q, Laplace::new(*a, *b), repr),
                                Fam::Cauchy => quant_reprs::<_, $Sy, P>(q, Cauchy::new(*a, *b), repr),
                                Fam::Binomial => quant_reprs::<_, $Sy, P>(q, Binomial::new(*a as usize, *b), repr),
                            }
                        }};
                    }
                    match sym {
                        1 => with_sym!(u8),
                        2 => with_sym!(i8),
                        3 => with_sym!(i16),
                        4 => with_sym!(u16),
                        _ => with_sym!(i32),
                    }
                }
            }
        }

        #[allow(dead_code)]
        mod $name {
            use super::*;
            pub(super) fn quant_reprs<D, Sy, const P: usize>(
                q: LeakyQuantizer<f64, Sy, $Prob, P>,
                d: D,
                repr: Repr,
            ) -> Option<FnModel<$Prob>>
            where
                D: probability::distribution::Distribution + probability::distribution::Inverse + 'static,
                D::Value: num_traits::AsPrimitive<Sy>,
                Sy: SymT + num_traits::PrimInt + num_traits::AsPrimitive<$Prob> + num_traits::AsPrimitive<usize> + Into<f64> + num_traits::WrappingSub + num_traits::WrappingAdd + core::hash::Hash + Default,
            {
                let m = q.quantize(d);
                match repr {
                    Repr::Plain | Repr::View => Some(both_of::<_, Sy, $Prob, P>(m)),
                    Repr::FromTable => {
                        let table: Vec<_> = m.symbol_table().collect();
                        let syms: Vec<Sy> = table.iter().map(|t| t.0).collect();
                        let probs: Vec<$Prob> = table.iter().map(|t| t.2.get()).collect();
                        let e = NonContiguousCategoricalEncoderModel::<Sy, $Prob, P>::from_symbols_and_nonzero_fixed_point_probabilities(
                            syms.iter().cloned(), probs.iter(), false);
                        let d = NonContiguousCategoricalDecoderModel::<Sy, $Prob, Vec<($Prob, Sy)>, P>::from_symbols_and_nonzero_fixed_point_probabilities(
                            syms.iter().cloned(), probs.iter(), false);
                        match (e, d) {
                            (Ok(e), Ok(d)) => Some(FnModel {
                                enc: Some(enc_of::<_, Sy, $Prob, P>(Rc::new(e))),
                                dec: Some(dec_of::<_, Sy, $Prob, P>(Rc::new(d))),
                            }),
                            _ => None,
                        }
                    }
                    r => generic_reprs!(&m, Sy, $Prob, P, r, lookup = $lookup),
                }
            }

            pub(super) fn contiguous_reprs<const P: usize>(
                m: ContiguousCategoricalEntropyModel<$Prob, Vec<$Prob>, P>,
                repr: Repr,
            ) -> Option<FnModel<$Prob>> {
                match repr {
                    Repr::Plain => Some(both_of::<_, usize, $Prob, P>(m)),
                    Repr::View => {
                        let m = Rc::new(m);
                        let m2 = m.clone();
                        Some(FnModel {
                            enc: Some(Box::new(move |s| {
                                usize::from_i64(s).and_then(|s| m.as_view().left_cumulative_and_probability(s))
                            })),
                            dec: Some(Box::new(move |q| {
                                let (s, c, p) = m2.as_view().quantile_function(q);
                                (s.to_i64(), c, p)
                            })),
                        })
                    }
                    Repr::Lookup => contiguous_lookup!($lookup, m, $Prob, P),
                    Repr::LookupBack => contiguous_lookup_back!($lookup, m, $Prob, P),
                    Repr::FromTable => {
                        let probs: Vec<$Prob> = m.symbol_table().map(|t| t.2.get()).collect();
                        ContiguousCategoricalEntropyModel::<$Prob, Vec<$Prob>, P>::from_nonzero_fixed_point_probabilities(probs.iter(), false)
                            .ok()
                            .map(|m| both_of::<_, usize, $Prob, P>(m))
                    }
                    Repr::Lazy => None,
                    r => generic_reprs!(&m, usize, $Prob, P, r, lookup = $lookup),
                }
            }
        }
        use $name::{contiguous_reprs, quant_reprs};
    };
}

mod b8 {
    use super::*;
    lib_builder!(build, u8, lookup = yes);
    pub fn go<const P: usize>(k: &Kind, r: Repr) -> Option<FnModel<u8>> {
        build::<P>(k, r)
    }
}
mod b16 {
    use super::*;
    lib_builder!(build, u16, lookup = yes);
    pub fn go<const P: usize>(k: &Kind, r: Repr) -> Option<FnModel<u16>> {
        build::<P>(k, r)
    }
}
mod b32 {
    use super::*;
    lib_builder!(build, u32, lookup = no);
    pub fn go<const P: usize>(k: &Kind, r: Repr) -> Option<FnModel<u32>> {
        build::<P>(k, r)
    }
}

fn uniform_u64<const P: usize>(n: u64) -> FnModel<u64> {
    both_of::<_, usize, u64, P>(UniformModel::<u64, P>::new(n as usize))
}

/// The support (in cumulative order) implied by a spec.
pub fn support_of(kind: &Kind) -> Vec<i64> {
    match kind {
        Kind::Table { first, probs } => (0..probs.len() as i64).map(|i| first + i).collect(),
        Kind::Uniform { n } => (0..*n as i64).collect(),
        Kind::Cat { probs, .. } => (0..probs.len() as i64).collect(),
        Kind::Fixed { probs } => (0..probs.len() as i64).collect(),
        Kind::Quant { lo, hi, .. } => (*lo as i64..=*hi as i64).collect(),
    }
}

/// Is the spec inside the documented preconditions of its constructor?  (The generator only
/// emits such specs; the executor re-checks so that minimised traces stay meaningful.)
pub fn spec_plausible(spec: &ModelSpec) -> bool {
    let (pb, p) = (spec.pb, spec.p);
    if !MENU.contains(&(pb, p)) {
        return false;
    }
    let max_syms: u128 = 1u128 << p;
    match &spec.kind {
        Kind::Table { probs, first } => {
            table_valid(pb, p, probs) && first.checked_add(probs.len() as i64).is_some()
        }
        Kind::Uniform { n } => *n >= 2 && (*n as u128) <= max_syms && *n <= 1 << 20,
        Kind::Cat { probs, f32: use_f32, .. } => {
            // documented preconditions: nonnegative entries whose sum (in the float type used)
            // is a normal positive number
            let sum_ok = if *use_f32 {
                let s = probs.iter().map(|&x| x as f32).sum::<f32>();
                s.is_normal() && s > 0.0 && probs.iter().all(|&x| (x as f32).is_finite())
            } else {
                let s = probs.iter().sum::<f64>();
                s.is_normal() && s > 0.0
            };
            probs.len() >= 2
                && (probs.len() as u128) + 1 < max_syms
                && probs.iter().all(|x| x.is_finite() && *x >= 0.0)
                && sum_ok
                && pb <= 32
        }
        Kind::Fixed { probs } => table_valid(pb, p, probs) && pb <= 32,
        Kind::Quant { fam, a, b, lo, hi, sym } => {
            let (tmin, tmax): (i64, i64) = match sym { 1 => (0, 255), 2 => (-128, 127), 3 => (-32768, 32767), 4 => (0, 65535), _ => (i32::MIN as i64, i32::MAX as i64) };
            pb <= 32
                && (*lo as i64) >= tmin
                && (*hi as i64) <= tmax
                && lo < hi
                && ((*hi as i64 - *lo as i64) as u128) < max_syms - 1
                && a.is_finite()
                && b.is_finite()
                && match fam {
                    Fam::Binomial => *a >= 1.0 && *a <= 1000.0 && *b > 0.0 && *b < 1.0 && *lo >= 0,
                    _ => *b > 1e-6 && *b < 1e9 && a.abs() < 1e9,
                }
        }
    }
}

pub fn build(spec: &ModelSpec, repr: Repr) -> Option<Built> {
    if !spec_plausible(spec) {
        return None;
    }
    let support = support_of(&spec.kind);
    let mb = if let Kind::Table { first, probs } = &spec.kind {
        if repr != Repr::Plain {
            return None;
        }
        macro_rules! tm {
            ($T:ty, $V:ident) => {{
                let t = Rc::new(TableModel::<$T>::new(*first, probs));
                let t2 = t.clone();
                ModelBox::$V(FnModel {
                    enc: Some(Box::new(move |s| t.lcp(s))),
                    dec: Some(Box::new(move |q| t2.quant(q))),
                })
            }};
        }
        match spec.pb {
            8 => tm!(u8, U8),
            16 => tm!(u16, U16),
            32 => tm!(u32, U32),
            64 => tm!(u64, U64),
            _ => return None,
        }
    } else {
        let k = &spec.kind;
        match (spec.pb, spec.p) {
            (8, 1) => ModelBox::U8(b8::go::<1>(k, repr)?),
            (8, 3) => ModelBox::U8(b8::go::<3>(k, repr)?),
            (8, 5) => ModelBox::U8(b8::go::<5>(k, repr)?),
            (8, 8) => ModelBox::U8(b8::go::<8>(k, repr)?),
            (16, 1) => ModelBox::U16(b16::go::<1>(k, repr)?),
            (16, 9) => ModelBox::U16(b16::go::<9>(k, repr)?),
            (16, 12) => ModelBox::U16(b16::go::<12>(k, repr)?),
            (16, 16) => ModelBox::U16(b16::go::<16>(k, repr)?),
            (32, 1) => ModelBox::U32(b32::go::<1>(k, repr)?),
            (32, 12) => ModelBox::U32(b32::go::<12>(k, repr)?),
            (32, 24) => ModelBox::U32(b32::go::<24>(k, repr)?),
            (32, 32) => ModelBox::U32(b32::go::<32>(k, repr)?),
            (64, 24) => match k {
                Kind::Uniform { n } if repr == Repr::Plain => ModelBox::U64(uniform_u64::<24>(*n)),
                _ => return None,
            },
            (64, 64) => match k {
                Kind::Uniform { n } if repr == Repr::Plain => ModelBox::U64(uniform_u64::<64>(*n)),
                _ => return None,
            },
            _ => return None,
        }
    };
    Some(Built { pb: spec.pb, p: spec.p, mb, support })
}

/// `build`, with constructor panics turned into `None`
pub fn build_caught(spec: &ModelSpec, repr: Repr) -> Option<Built> {
    std::panic::catch_unwind(std::panic::AssertUnwindSafe(|| build(spec, repr))).ok().flatten()
}

// ---------------------------------------------------------------------------------------
// generation

/// random composition of `total` into `n` positive parts, with a bias knob
fn composition(rng: &mut Rng, n: usize, total: u128, style: u64) -> Vec<u64> {
    debug_assert!(n as u128 <= total && n >= 1);
    let mut parts = vec![1u128; n];
    let mut rest = total - n as u128;
    match style {
        0 => {
            // nearly everything on one symbol (p = 2^P - (n-1), others 1)
            let i = rng.usize(n);
            parts[i] += rest;
        }
        1 => {
            // flat
            let each = rest / n as u128;
            for p in parts.iter_mut() {
                *p += each;
            }
            rest -= each * n as u128;
            let i = rng.usize(n);
            parts[i] += rest;
        }
        _ => {
            // random stick breaking with heavy variation
            for i in 0..n {
                if rest == 0 {
                    break;
                }
                let take = if i + 1 == n {
                    rest
                } else {
                    let r = match rng.below(4) {
                        0 => 0,
                        1 => rest,
                        2 => rest / 2,
                        _ => (rng.next_u64() as u128 * rest) >> 64,
                    };
                    r.min(rest)
                };
                // the last index gets the rest (handled after loop if we never reach it)
                parts[i] += take;
                rest -= take;
            }
            if rest > 0 {
                let i = rng.usize(n);
                parts[i] += rest;
            }
            // shuffle
            for i in (1..n).rev() {
                let j = rng.usize(i + 1);
                parts.swap(i, j);
            }
        }
    }
    parts.into_iter().map(|x| x as u64).collect()
}

pub fn gen_table(rng: &mut Rng, pb: u8, p: u8, max_syms: usize) -> ModelSpec {
    let cap = ((1u128 << p).min(max_syms as u128)) as usize;
    let n = if cap <= 2 { 2 } else { 2 + rng.usize(cap - 1) };
    let n = if rng.chance(1, 3) { n.min(4) } else { n };
    let style = rng.below(5);
    let probs = composition(rng, n, 1u128 << p, style);
    let first = match rng.below(4) {
        0 => 0,
        1 => -(rng.below(50) as i64),
        2 => rng.range(-1000, 1000),
        _ => rng.below(5) as i64,
    };
    ModelSpec { pb, p, kind: Kind::Table { first, probs } }
}

fn gen_floats(rng: &mut Rng, n: usize) -> Vec<f64> {
    let style = rng.below(5);
    // overall magnitude: mostly ordinary, sometimes extreme (unnormalised exp(logit) tables)
    let magnitude = match rng.below(8) {
        0 => 10f64.powi(-(rng.below(37) as i32)),
        1 => 10f64.powi(rng.below(30) as i32),
        2 => 10f64.powi(-(rng.below(300) as i32)),
        _ => 1.0,
    };
    let v: Vec<f64> = (0..n)
        .map(|i| match style {
            0 => rng.f64(),
            1 => {
                if rng.chance(1, 3) {
                    0.0
                } else {
                    rng.f64()
                }
            }
            2 => (rng.f64() * 40.0 - 20.0).exp(),
            3 => {
                if i == 0 {
                    1.0
                } else {
                    rng.f64() * 1e-9
                }
            }
            _ => 1.0,
        })
        .collect();
    v.into_iter().map(|x| x * magnitude).collect()
}

/// A random well-formed model spec for `(pb, p)`; `lib_share` in 0..=100 is the percentage of
/// library-built (as opposed to harness `TableModel`) models.
pub fn gen_spec(rng: &mut Rng, pb: u8, p: u8, max_syms: usize, lib_share: u64) -> ModelSpec {
    for _ in 0..20 {
        let spec = if pb == 64 {
            if rng.chance(lib_share, 200) {
                let cap = ((1u128 << p.min(20)).min(max_syms as u128)) as u64;
                ModelSpec { pb, p, kind: Kind::Uniform { n: 2 + rng.below(cap - 1) } }
            } else {
                gen_table(rng, pb, p, max_syms)
            }
        } else if !rng.chance(lib_share, 100) {
            gen_table(rng, pb, p, max_syms)
        } else {
            let cap = ((1u128 << p).min(max_syms as u128)) as usize;
            match rng.below(6) {
                0 => ModelSpec { pb, p, kind: Kind::Uniform { n: 2 + rng.below(cap as u64 - 1) } },
                1 | 2 => {
                    if cap < 5 {
                        continue;
                    }
                    let n = 2 + rng.usize(cap - 4);
                    let mut probs = gen_floats(rng, n);
                    if !probs.iter().sum::<f64>().is_normal() {
                        probs[0] = 1.0;
                    }
                    let use_f32 = rng.chance(1, 2);
                    if use_f32 {
                        // keep values representable and the sum finite/normal in f32
                        for x in probs.iter_mut() {
                            *x = (*x as f32).max(0.0) as f64;
                            if !x.is_finite() {
                                *x = 1.0;
                            }
                        }
                        if !probs.iter().map(|&x| x as f32).sum::<f32>().is_normal() {
                            probs[0] = 1.0;
                        }
                    }
                    ModelSpec { pb, p, kind: Kind::Cat { probs, f32: use_f32, perfect: rng.chance(1, 3) } }
                }
                3 => {
                    let t = gen_table(rng, pb, p, max_syms);
                    if let Kind::Table { probs, .. } = t.kind {
                        ModelSpec { pb, p, kind: Kind::Fixed { probs } }
                    } else {
                        unreachable!()
                    }
                }
                _ => {
                    if cap < 5 {
                        continue;
                    }
                    // native symbol type of the quantizer; narrow types get supports that touch
                    // the ends of the type's range (wrap-around territory for the search loops)
                    let sym: u8 = if rng.chance(1, 3) { 1 + rng.below(4) as u8 } else { 0 };
                    let (tmin, tmax): (i64, i64) = match sym { 1 => (0, 255), 2 => (-128, 127), 3 => (-32768, 32767), 4 => (0, 65535), _ => (i32::MIN as i64, i32::MAX as i64) };
                    let max_width = ((cap - 3) as i64).min(tmax - tmin).max(1);
                    let width = (1 + rng.below(max_width as u64) as i64) as i32;
                    let (lo, hi): (i32, i32) = if sym == 0 {
                        let lo = rng.range(-300, 300) as i32;
                        (lo, lo + width)
                    } else {
                        match rng.below(3) {
                            0 => ((tmax - width as i64) as i32, tmax as i32),
                            1 => (tmin as i32, (tmin + width as i64) as i32),
                            _ => {
                                let lo = rng.range(tmin, tmax - width as i64);
                                (lo as i32, (lo + width as i64) as i32)
                            }
                        }
                    };
                    let mid = (lo + hi) as f64 / 2.0;
                    match rng.below(4) {
                        0 => ModelSpec {
                            pb,
                            p,
                            kind: Kind::Quant {
                                fam: Fam::Binomial,
                                a: (1 + rng.below(60)) as f64,
                                b: 0.05 + 0.9 * rng.f64(),
                                lo: 0,
                                hi: if sym == 2 { width.min(127) } else { width },
                                sym: if sym == 2 || sym == 3 { sym } else if sym == 0 { 0 } else { sym },
                            },
                        },
                        k => {
                            let fam = [Fam::Gaussian, Fam::Laplace, Fam::Cauchy][(k - 1) as usize].clone();
                            let a = match rng.below(4) {
                                0 => mid,
                                1 => mid + (rng.f64() - 0.5) * width as f64,
                                2 => mid + (rng.f64() - 0.5) * 10.0 * width as f64,
                                _ => rng.f64() * 1e4 - 5e3,
                            };
                            let b = match rng.below(4) {
                                0 => 0.001 + rng.f64() * 0.1,
                                1 => width as f64 * rng.f64() + 0.01,
                                2 => 1.0 + rng.f64() * 10.0,
                                _ => 1e3 * rng.f64() + 0.1,
                            };
                            ModelSpec { pb, p, kind: Kind::Quant { fam, a, b, lo, hi, sym } }
                        }
                    }
                }
            }
        };
        if spec_plausible(&spec) && build_caught(&spec, Repr::Plain).is_some() {
            return spec;
        }
    }
    // fall back to the smallest table
    let half = 1u64 << (p - 1);
    ModelSpec { pb, p, kind: Kind::Table { first: 0, probs: vec![half, ((1u128 << p) - half as u128) as u64] } }
}
