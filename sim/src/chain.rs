//! World `chain`: ChainCoder decode / export / re-import / re-encode with precision schedules
//! (DESIGN 3: C13, C14; chain parts of C09 and C10).

use constriction::stream::chain::ChainCoder;
use constriction::stream::Code;
use constriction::BitArray;
use num_traits::AsPrimitive;
use serde::{Deserialize, Serialize};

use crate::common::*;
use crate::dynops::{DecRes, EncRes, WordOps};
use crate::model::{build_caught, gen_spec, Built, ModelSpec, Repr, MENU};
use crate::rng::Rng;

/// runtime-precision wrapper around `ChainCoder<W, S, Vec<W>, Vec<W>, P>`
pub trait ChainAnyT<W, S>: Sized + Clone {
    fn from_data(p: u8, binary: bool, data: Vec<W>) -> Option<Result<Self, ()>>;
    fn from_remainders(p: u8, rem: Vec<W>) -> Option<Result<Self, ()>>;
    fn precision(&self) -> u8;
    fn dec(&mut self, m: &Built) -> DecRes;
    fn enc(&mut self, m: &Built, sym: i64) -> EncRes;
    /// `change_precision::<NEW>()`; Err(description) on a documented error
    fn change(self, new_p: u8) -> Option<Result<Self, String>>;
    fn into_remainders(self) -> (Vec<W>, Vec<W>);
    /// (remainders, compressed) or the coder back
    fn into_data(self, binary: bool) -> Result<(Vec<W>, Vec<W>), Self>;
    fn heads_debug(&self) -> String;
    fn is_whole(&self) -> bool;
    /// `self.clone_from(src)` on the underlying coders (same precision only; `false` = not done)
    fn clone_from_coder(&mut self, src: &Self) -> bool;
    /// checkpoint, decode with `m0`, seek back to the checkpoint, decode with `m1`; returns
    /// (first result, whether the seek succeeded, second result). After a refused seek (the
    /// Vec backend cannot grow back) nothing more is decoded: the first result stands.
    fn dec_via_seek(&mut self, m0: &Built, m1: &Built) -> (DecRes, bool, DecRes);
}

pub trait ChainWord: WordOps {
    type Any<S: BitArray + AsPrimitive<Self> + From<Self>>: ChainAnyT<Self, S>
    where
        Self: Into<S>;
    /// precisions available at this word level
    const PRECISIONS: &'static [u8];
}

macro_rules! chain_change {
    ($c:ident, $np:ident, $Any:ident, [$($P2:literal => $V2:ident),*]) => {
        match $np {
            $( $P2 => Some($c.change_precision::<$P2>().map($Any::$V2).map_err(|e| format!("{:?}", e))), )*
            _ => None,
        }
    };
}

macro_rules! chain_level {
    ($Any:ident, $W:ty, $list:tt, [$($P:literal => $V:ident),*]) => {
        pub enum $Any<S: BitArray + AsPrimitive<$W>> where $W: Into<S> {
            $( $V(ChainCoder<$W, S, Vec<$W>, Vec<$W>, $P>), )*
        }
        impl<S: BitArray + AsPrimitive<$W>> Clone for $Any<S> where $W: Into<S> {
            fn clone(&self) -> Self {
                match self { $( $Any::$V(c) => $Any::$V(c.clone()), )* }
            }
        }
        impl<S: BitArray + AsPrimitive<$W> + From<$W>> ChainAnyT<$W, S> for $Any<S> where $W: Into<S> {
            fn from_data(p: u8, binary: bool, data: Vec<$W>) -> Option<Result<Self, ()>> {
                match p {
                    $( $P => Some(if binary {
                        ChainCoder::<$W, S, Vec<$W>, Vec<$W>, $P>::from_binary(data).map($Any::$V).map_err(|_| ())
                    } else {
                        ChainCoder::<$W, S, Vec<$W>, Vec<$W>, $P>::from_compressed(data).map($Any::$V).map_err(|_| ())
                    }), )*
                    _ => None,
                }
            }
            fn from_remainders(p: u8, rem: Vec<$W>) -> Option<Result<Self, ()>> {
                match p {
                    $( $P => Some(ChainCoder::<$W, S, Vec<$W>, Vec<$W>, $P>::from_remainders(rem).map($Any::$V).map_err(|_| ())), )*
                    _ => None,
                }
            }
            fn precision(&self) -> u8 {
                match self { $( $Any::$V(_) => $P, )* }
            }
            fn dec(&mut self, m: &Built) -> DecRes {
                match self { $( $Any::$V(c) => <$W as WordOps>::dec_p::<_, $P>(c, m), )* }
            }
            fn enc(&mut self, m: &Built, sym: i64) -> EncRes {
                match self { $( $Any::$V(c) => <$W as WordOps>::enc_p::<_, $P>(c, m, sym), )* }
            }
            fn change(self, new_p: u8) -> Option<Result<Self, String>> {
                match self { $( $Any::$V(c) => chain_change!(c, new_p, $Any, $list), )* }
            }
            fn into_remainders(self) -> (Vec<$W>, Vec<$W>) {
                match self { $( $Any::$V(c) => c.into_remainders().expect("Vec backend is infallible"), )* }
            }
            fn into_data(self, binary: bool) -> Result<(Vec<$W>, Vec<$W>), Self> {
                match self { $( $Any::$V(c) => {
                    let r = if binary { c.into_binary() } else { c.into_compressed() };
                    match r {
                        Ok(x) => Ok(x),
                        Err(constriction::CoderError::Frontend(c)) => Err($Any::$V(c)),
                        Err(constriction::CoderError::Backend(_)) => unreachable!("Vec backend is infallible"),
                    }
                } )* }
            }
            fn heads_debug(&self) -> String {
                match self { $( $Any::$V(c) => format!("{:?}", c.state()), )* }
            }
            fn is_whole(&self) -> bool {
                match self { $( $Any::$V(c) => c.is_whole(), )* }
            }
            fn clone_from_coder(&mut self, src: &Self) -> bool {
                match (self, src) {
                    $( ($Any::$V(c), $Any::$V(s)) => { c.clone_from(s); true } )*
                    #[allow(unreachable_patterns)]
                    _ => false,
                }
            }
            fn dec_via_seek(&mut self, m0: &Built, m1: &Built) -> (DecRes, bool, DecRes) {
                use constriction::{Pos, Seek};
                match self { $( $Any::$V(c) => {
                    let checkpoint = c.pos();
                    let backup = c.clone();
                    let r0 = <$W as WordOps>::dec_p::<_, $P>(c, m0);
                    let sought = c.seek(checkpoint).is_ok();
                    let _ = backup;
                    // a refused seek must leave the coder where it was: the symbol decoded with
                    // `m0` stands and decoding simply goes on
                    let r1 = if sought { <$W as WordOps>::dec_p::<_, $P>(c, m1) } else { r0.clone() };
                    (r0, sought, r1)
                } )* }
            }
        }
    };
}

chain_level!(Any8, u8, [1 => P1, 3 => P3, 5 => P5, 8 => P8], [1 => P1, 3 => P3, 5 => P5, 8 => P8]);
chain_level!(Any16, u16, [1 => P1, 3 => P3, 5 => P5, 8 => P8, 9 => P9, 12 => P12, 16 => P16], [1 => P1, 3 => P3, 5 => P5, 8 => P8, 9 => P9, 12 => P12, 16 => P16]);
chain_level!(Any32, u32, [1 => P1, 3 => P3, 5 => P5, 8 => P8, 9 => P9, 12 => P12, 16 => P16, 24 => P24, 32 => P32], [1 => P1, 3 => P3, 5 => P5, 8 => P8, 9 => P9, 12 => P12, 16 => P16, 24 => P24, 32 => P32]);
chain_level!(Any64, u64, [1 => P1, 3 => P3, 5 => P5, 8 => P8, 9 => P9, 12 => P12, 16 => P16, 24 => P24, 32 => P32, 64 => P64], [1 => P1, 3 => P3, 5 => P5, 8 => P8, 9 => P9, 12 => P12, 16 => P16, 24 => P24, 32 => P32, 64 => P64]);

impl ChainWord for u8 {
    type Any<S: BitArray + AsPrimitive<u8> + From<u8>> = Any8<S>;
    const PRECISIONS: &'static [u8] = &[1, 3, 5, 8];
}
impl ChainWord for u16 {
    type Any<S: BitArray + AsPrimitive<u16> + From<u16>> = Any16<S> where u16: Into<S>;
    const PRECISIONS: &'static [u8] = &[1, 3, 5, 8, 9, 12, 16];
}
impl ChainWord for u32 {
    type Any<S: BitArray + AsPrimitive<u32> + From<u32>> = Any32<S> where u32: Into<S>;
    const PRECISIONS: &'static [u8] = &[1, 3, 5, 8, 9, 12, 16, 24, 32];
}
impl ChainWord for u64 {
    type Any<S: BitArray + AsPrimitive<u64> + From<u64>> = Any64<S> where u64: Into<S>;
    const PRECISIONS: &'static [u8] = &[1, 3, 5, 8, 9, 12, 16, 24, 32, 64];
}

// ---------------------------------------------------------------------------------------
// R-CHAIN: bit-provenance model of the consumption order

/// For each decoded symbol: the (word index, bit index) positions that form its quantile, least
/// significant first; `None` = the coder runs out of compressed data at this step.
pub struct RefChain {
    /// data words still unread, consumed from the end
    words: Vec<u64>,
    w: u32,
    /// bit buffer, low end first: (word index, bit index, value)
    buf: std::collections::VecDeque<(usize, u32, bool)>,
}

impl RefChain {
    /// `None` if the constructor must refuse (not enough data / zero top word)
    pub fn new(data: &[u64], w: u32, s: u32, p0: u32, binary: bool) -> Option<Self> {
        let mut words = data.to_vec();
        // the remainders head is initialised from the top of the data
        let threshold: u128 = 1u128 << (s - w - p0);
        let mut head: u128 = if binary {
            1
        } else {
            match words.pop() {
                Some(x) if x != 0 => x as u128,
                _ => return None,
            }
        };
        while head < threshold {
            head = (head << w) | words.pop()? as u128;
        }
        Some(RefChain { words, w, buf: Default::default() })
    }
    /// provenance + value of the next quantile at precision p
    pub fn next_quantile(&mut self, p: u32) -> Option<(u64, Vec<(usize, u32)>)> {
        let mut bits: Vec<(usize, u32, bool)> = Vec::new();
        if p == self.w || (self.buf.len() as u32) < p {
            let idx = self.words.len().checked_sub(1)?;
            let word = self.words.pop()?;
            for b in 0..p {
                bits.push((idx, b, (word >> b) & 1 == 1));
            }
            // the rest of the word goes *below* what is still buffered
            for b in (p..self.w).rev() {
                self.buf.push_front((idx, b, (word >> b) & 1 == 1));
            }
        } else {
            for _ in 0..p {
                bits.push(self.buf.pop_front().expect("enough bits"));
            }
        }
        let mut q = 0u64;
        for (i, (_, _, v)) in bits.iter().enumerate() {
            if *v {
                q |= 1u64 << i;
            }
        }
        Some((q, bits.iter().map(|(a, b, _)| (*a, *b)).collect()))
    }
}

// ---------------------------------------------------------------------------------------

#[derive(Clone, Copy, Debug, Serialize, Deserialize, PartialEq, Eq, Hash)]
pub enum Way {
    /// from_remainders(suffix only); prefix prepended afterwards
    Suffix,
    /// from_remainders(prefix ++ suffix)
    Concat,
    /// keep the live coder
    Live,
}

#[derive(Clone, Debug, Serialize, Deserialize, PartialEq)]
pub enum ChainStep {
    Dec { m: usize },
    ChangeP { p: u8 },
}

#[derive(Clone, Debug, Serialize, Deserialize, PartialEq)]
pub enum Tamper {
    None,
    /// C14: flip these bit offsets (0..P) inside the chunk of decoded symbol `sym_idx`
    FlipInChunk { sym_idx: usize, bits: Vec<u32> },
    /// C14: use this model instead at decoded-symbol position `sym_idx`
    /// `via_seek`: realise the replacement on the live coder - checkpoint (`pos()`), decode with
    /// the original model, `seek()` back, decode with the replacement
    SwapModel { sym_idx: usize, m: usize, #[serde(default)] via_seek: bool },
    /// C13: drop this many words from the top of the exported remainders before re-import
    TruncateRemainders(usize),
    /// C09: try to encode this out-of-support symbol at re-encode position `at`
    BadSym { at: usize, m: usize, sym: i64 },
}

#[derive(Clone, Debug, Serialize, Deserialize, PartialEq)]
pub struct ChainTrace {
    pub cfg: usize,
    pub binary: bool,
    pub data: Vec<u64>,
    pub p0: u8,
    pub models: Vec<ModelSpec>,
    pub steps: Vec<ChainStep>,
    pub way: Way,
    pub tamper: Tamper,
    /// every k-th step the live coder is replaced by an older copy of itself that was
    /// overwritten in place with `clone_from(&live)` (observationally a no-op)
    #[serde(default)]
    pub clone_from_every: Option<usize>,
}

macro_rules! viol {
    ($ctx:expr, $prop:expr, $tag:expr, $($fmt:tt)*) => {
        return Err(Violation::new($prop, $tag, $ctx.op, format!($($fmt)*)))
    };
}

pub fn exec(t: &ChainTrace, ctx: &mut Ctx) -> Result<(), Violation> {
    crate::for_cfg!(t.cfg, |C| exec_cfg::<C>(t, ctx))
}

#[allow(type_alias_bounds)]
type A<C: Ws> = <<C as Ws>::W as ChainWord>::Any<<C as Ws>::S>;

struct DecodeRun<A> {
    coder: A,
    symbols: Vec<i64>,
    /// (model, precision) per decoded symbol
    used: Vec<(usize, u8)>,
    /// precision changes applied, as (position in symbols, from, to)
    changes: Vec<(usize, u8, u8)>,
    /// step index at which OutOfCompressedData was reported (the run stops there)
    out_of_data_at: Option<usize>,
    provenance: Vec<Vec<(usize, u32)>>,
}

fn exec_cfg<C: Ws>(t: &ChainTrace, ctx: &mut Ctx) -> Result<(), Violation>
where
    C::W: ChainWord,
{
    let built: Vec<Option<Built>> = t.models.iter().map(|s| if (s.pb as u32) <= C::WB { build_caught(s, Repr::Plain) } else { None }).collect();
    let model = |m: usize| -> Option<&Built> { built.get(m).and_then(|b| b.as_ref()) };
    let data64: Vec<u64> = t.data.iter().map(|&w| w_to(w_from::<C::W>(w))).collect();
    let data: Vec<C::W> = data64.iter().map(|&w| w_from(w)).collect();
    if !<C::W as ChainWord>::PRECISIONS.contains(&t.p0) {
        return Ok(());
    }

    // one decode pass; `swap` / `flip` produce the tampered twin for C14
    let decode_pass = |ctx: &mut Ctx, data: &[C::W], swap: Option<(usize, usize, bool)>| -> Result<Option<DecodeRun<A<C>>>, Violation> {
        let coder = match A::<C>::from_data(t.p0, t.binary, data.to_vec()) {
            Some(Ok(c)) => c,
            Some(Err(())) => return Ok(None),
            None => return Ok(None),
        };
        let d64: Vec<u64> = data.iter().map(|&w| w_to(w)).collect();
        let mut r = RefChain::new(&d64, C::WB, C::SB, t.p0 as u32, t.binary);
        if r.is_none() && ctx.on("C14") {
            viol!(ctx, "C14", "constructor-accepts-data-reference-refuses", "data={:x?}", d64);
        }
        let mut run = DecodeRun { coder, symbols: Vec::new(), used: Vec::new(), changes: Vec::new(), out_of_data_at: None, provenance: Vec::new() };
        let mut stale: Option<A<C>> = None;
        for (i, st) in t.steps.iter().enumerate() {
            ctx.op = i;
            if let Some(k) = t.clone_from_every {
                let k = k.max(2);
                if i % k == 0 {
                    stale = Some(run.coder.clone());
                } else if i % k == k - 1 {
                    if let Some(mut tgt) = stale.take() {
                        if tgt.clone_from_coder(&run.coder) {
                            ctx.stats.hit("op-chain-clone-from");
                            run.coder = tgt;
                        }
                    }
                }
            }
            match st {
                ChainStep::ChangeP { p } => {
                    let from = run.coder.precision();
                    if *p == from { continue; }
                    let pre = run.coder.clone();
                    match run.coder.change(*p) {
                        None => { run.coder = pre; ctx.stats.hit("skipped-op"); }
                        Some(Ok(c)) => {
                            run.coder = c;
                            run.changes.push((run.symbols.len(), from, *p));
                            ctx.stats.hit(if *p > from { "op-increase-precision" } else { "op-decrease-precision" });
                        }
                        Some(Err(e)) => {
                            // decrease may run out of remainders: documented error; the coder is consumed
                            ctx.stats.hit("change-precision-error");
                            if ctx.on("C14") { return Ok(None); }
                            if ctx.on("C13") && !e.contains("OutOfRemainders") {
                                viol!(ctx, "C13", "change-precision-unexpected-error", "{} -> {}: {}", from, p, e);
                            }
                            run.coder = pre;
                        }
                    }
                }
                ChainStep::Dec { m } => {
                    let mi = match swap { Some((idx, m2, _)) if idx == run.symbols.len() => m2, _ => *m };
                    let Some(b) = model(mi) else { ctx.stats.hit("skipped-op"); continue };
                    if b.p != run.coder.precision() || !b.can_decode() { ctx.stats.hit("skipped-op"); continue }
                    let pre = run.coder.clone();
                    let (res, b, mi) = match (swap, model(*m)) {
                        (Some((idx, _, true)), Some(b0)) if idx == run.symbols.len() && b0.p == b.p && b0.can_decode() => {
                            let (_, sought, r1) = run.coder.dec_via_seek(b0, b);
                            ctx.stats.hit(if sought { "op-chain-seek-back" } else { "op-chain-seek-refused" });
                            // refused: the original model was the one that decoded this position
                            if sought { (r1, b, mi) } else { (r1, b0, *m) }
                        }
                        _ => (run.coder.dec(b), b, mi),
                    };
                    let expect = r.as_mut().and_then(|r| r.next_quantile(b.p as u32));
                    match res {
                        DecRes::Ok(sym) => {
                            ctx.stats.hit("op-dec");
                            if ctx.any(&["C10", "C14"]) && !b.in_support(sym) {
                                viol!(ctx, ctx.prop, "chain-decoded-symbol-outside-support", "sym={} model={:?}", sym, t.models[mi]);
                            }
                            if ctx.on("C14") {
                                match &expect {
                                    Some((q, _)) => {
                                        let (want, _, _) = b.quant64(*q);
                                        if want != sym {
                                            viol!(ctx, "C14", "chain-symbol-is-not-model-of-chunk", "symbol {}: got {} but model {} assigns {} to chunk {:#x}", run.symbols.len(), sym, mi, want, q);
                                        }
                                    }
                                    None => viol!(ctx, "C14", "chain-decodes-beyond-data", "symbol {}: decoded {} although the data is exhausted", run.symbols.len(), sym),
                                }
                            }
                            run.provenance.push(expect.map(|(_, p)| p).unwrap_or_default());
                            run.symbols.push(sym);
                            run.used.push((mi, b.p));
                        }
                        DecRes::Frontend(e) if e == "OutOfCompressedData" => {
                            ctx.stats.hit("fault-out-of-compressed-data");
                            if ctx.on("C14") && expect.is_some() {
                                viol!(ctx, "C14", "chain-out-of-data-too-early", "symbol {}: OutOfCompressedData although chunk data is left", run.symbols.len());
                            }
                            // C13: reported as an error *before* any state change
                            if ctx.on("C13") && run.coder.clone().into_remainders() != pre.clone().into_remainders() {
                                viol!(ctx, "C13", "chain-state-changed-by-failed-decode", "heads {} -> {}", pre.heads_debug(), run.coder.heads_debug());
                            }
                            // "never whether or when the coder runs out of data": once it has,
                            // it stays out of data however often (and with whichever model) one asks
                            if ctx.on("C14") {
                                for attempt in 0..3 {
                                    let again = run.coder.dec(b);
                                    ctx.stats.hit("op-retry-after-out-of-data");
                                    if !matches!(&again, DecRes::Frontend(e) if e == "OutOfCompressedData") {
                                        viol!(ctx, "C14", "chain-decodes-after-running-out-of-data", "symbol {}: retry {} after OutOfCompressedData returned {:?}", run.symbols.len(), attempt + 1, again);
                                    }
                                }
                            }
                            run.out_of_data_at = Some(i);
                            break;
                        }
                        other => {
                            if ctx.any(&["C10", "C13", "C14"]) {
                                viol!(ctx, ctx.prop, "chain-decode-undocumented-error", "{:?}", other);
                            }
                            return Ok(None);
                        }
                    }
                }
            }
        }
        Ok(Some(run))
    };

    let Some(run) = decode_pass(ctx, &data, None)? else {
        ctx.stats.hit("constructor-refused");
        // refusing is only allowed when the reference refuses too
        if ctx.on("C13") && RefChain::new(&data64, C::WB, C::SB, t.p0 as u32, t.binary).is_some() && A::<C>::from_data(t.p0, t.binary, data.clone()).map_or(false, |r| r.is_err()) {
            viol!(ctx, "C13", "chain-constructor-refuses-sufficient-data", "data={:x?} p0={}", data64, t.p0);
        }
        return Ok(());
    };
    let k = run.symbols.len();
    ctx.stats.state(hash_mix(hash_mix(t.cfg as u64, t.p0 as u64), hash_mix(k.min(20) as u64, run.changes.len().min(4) as u64)));

    // ---------------- C14: tampered twin
    if ctx.on("C14") {
        match &t.tamper {
            Tamper::SwapModel { sym_idx, m, via_seek } if *sym_idx < k => {
                let ok = model(*m).map_or(false, |b| b.p == run.used[*sym_idx].1 && b.can_decode());
                if ok {
                    ctx.stats.hit("fault-wrong-model");
                    if let Some(twin) = decode_pass(ctx, &data, Some((*sym_idx, *m, *via_seek)))? {
                        compare_twin(ctx, &run.symbols, run.out_of_data_at, &twin.symbols, twin.out_of_data_at, *sym_idx, if *via_seek { "model replaced after seeking back to a checkpoint" } else { "model replaced" })?;
                    }
                }
            }
            Tamper::FlipInChunk { sym_idx, bits } if *sym_idx < k => {
                let prov = &run.provenance[*sym_idx];
                if !prov.is_empty() {
                    let mut d2 = data64.clone();
                    for b in bits {
                        let (wi, bi) = prov[*b as usize % prov.len()];
                        d2[wi] ^= 1u64 << bi;
                    }
                    // from_compressed requires a non-zero top word; provenance never touches the
                    // words consumed by the constructor, so the constructor's decision is unchanged
                    let d2w: Vec<C::W> = d2.iter().map(|&w| w_from(w)).collect();
                    ctx.stats.hit("fault-bit-flip");
                    if let Some(twin) = decode_pass(ctx, &d2w, None)? {
                        compare_twin(ctx, &run.symbols, run.out_of_data_at, &twin.symbols, twin.out_of_data_at, *sym_idx, "bits flipped inside one chunk")?;
                    }
                }
            }
            _ => {}
        }
        return Ok(());
    }

    // ---------------- C13 / C09: export, re-import, re-encode
    ctx.op = t.steps.len();
    let final_p = run.coder.precision();
    let live = run.coder.clone();
    let (prefix, mut suffix) = run.coder.into_remainders();
    if !prefix.iter().zip(data.iter()).all(|(a, b)| a == b) || prefix.len() > data.len() {
        if ctx.on("C13") {
            viol!(ctx, "C13", "chain-unused-prefix-altered", "prefix {:x?} is not a prefix of the data", prefix.iter().map(|&w| w_to(w)).collect::<Vec<_>>());
        }
        return Ok(());
    }
    let mut truncated = false;
    if let Tamper::TruncateRemainders(n) = &t.tamper {
        // cut from the *bottom* of the suffix, and only words that are certainly flushed
        // remainder words (the top S/W + 1 words may belong to the heads)
        let head_words = (C::SB / C::WB) as usize + 1;
        if *n > 0 && suffix.len() > head_words + *n {
            let cut = *n;
            suffix.drain(0..cut);
            truncated = true;
            ctx.stats.hit("fault-truncate-remainders");
        }
    }
    let way = if truncated { Way::Suffix } else { t.way };
    let mut enc: A<C> = match way {
        Way::Live => live,
        Way::Suffix => match A::<C>::from_remainders(final_p, suffix.clone()) {
            Some(Ok(c)) => c,
            _ => {
                if ctx.on("C13") && !truncated { viol!(ctx, "C13", "chain-from-remainders-refused", "suffix {} words", suffix.len()); }
                return Ok(());
            }
        },
        Way::Concat => {
            let mut all = prefix.clone();
            all.extend(suffix.iter().cloned());
            match A::<C>::from_remainders(final_p, all) {
                Some(Ok(c)) => c,
                _ => {
                    if ctx.on("C13") { viol!(ctx, "C13", "chain-from-remainders-refused", "concatenated {} words", prefix.len() + suffix.len()); }
                    return Ok(());
                }
            }
        }
    };
    ctx.stats.hit(&format!("reimport-{:?}", way));
    // encode back in reverse, undoing the precision changes in reverse
    let mut changes = run.changes.clone();
    let mut failed_cleanly = false;
    let mut stale_enc: Option<A<C>> = None;
    for i in (0..k).rev() {
        if let Some(kk) = t.clone_from_every {
            let kk = kk.max(2);
            if i % kk == 0 {
                stale_enc = Some(enc.clone());
            } else if i % kk == kk - 1 {
                if let Some(mut tgt) = stale_enc.take() {
                    if tgt.clone_from_coder(&enc) {
                        ctx.stats.hit("op-chain-clone-from-encoder");
                        enc = tgt;
                    }
                }
            }
        }
        while let Some(&(pos, from, _to)) = changes.last() {
            if pos > i {
                changes.pop();
                let pre = enc.clone();
                match enc.change(from) {
                    Some(Ok(c)) => enc = c,
                    Some(Err(e)) => {
                        if ctx.on("C13") && !(truncated && e.contains("OutOfRemainders")) {
                            viol!(ctx, "C13", "chain-undo-precision-change-failed", "{}", e);
                        }
                        let _ = pre;
                        return Ok(());
                    }
                    None => return Ok(()),
                }
            } else {
                break;
            }
        }
        let (mi, _p) = run.used[i];
        let b = model(mi).expect("was used");
        if let Tamper::BadSym { at, m, sym } = &t.tamper {
            if *at == i {
                if let Some(bm) = model(*m) {
                    if bm.p == enc.precision() && bm.can_encode() && !bm.in_support(*sym) {
                        let pre = enc.clone().into_remainders();
                        let res = enc.enc(bm, *sym);
                        ctx.stats.hit("fault-badsym-injected");
                        if ctx.on("C09") {
                            if !res.is_impossible() {
                                viol!(ctx, "C09", "chain-impossible-symbol-not-rejected", "sym={} model={:?} -> {:?}", sym, t.models[*m], res);
                            }
                            if enc.clone().into_remainders() != pre {
                                viol!(ctx, "C09", "chain-changed-by-rejected-symbol", "");
                            }
                        } else if res == EncRes::Ok {
                            return Ok(());
                        }
                    }
                }
            }
        }
        if !b.can_encode() { return Ok(()); }
        if ctx.on("C09") {
            let lo = *b.support.iter().min().unwrap();
            let hi = *b.support.iter().max().unwrap();
            let s0 = b.support[i % b.support.len()];
            for cand in [lo - 1, hi + 1, s0 + (1i64 << 8), s0 + (1i64 << 16), s0 + (1i64 << 32), s0 + (1i64 << b.p.min(62))] {
                if b.in_support(cand) { continue; }
                let mut c2 = enc.clone();
                let pre2 = c2.clone().into_remainders();
                let res = c2.enc(b, cand);
                ctx.stats.hit("fault-badsym-enumerated");
                if !res.is_impossible() {
                    viol!(ctx, "C09", "chain-impossible-symbol-not-rejected", "sym={} model={:?} -> {:?} (enumerated at re-encode position {})", cand, t.models[mi], res, i);
                }
                if c2.into_remainders() != pre2 {
                    viol!(ctx, "C09", "chain-changed-by-rejected-symbol", "sym={}", cand);
                }
            }
        }
        let pre = enc.clone();
        match enc.enc(b, run.symbols[i]) {
            EncRes::Ok => ctx.stats.hit("op-enc"),
            EncRes::Frontend(e) if e == "OutOfRemainders" => {
                ctx.stats.hit("fault-out-of-remainders");
                if ctx.on("C13") {
                    if !truncated {
                        viol!(ctx, "C13", "chain-out-of-remainders-on-untouched-remainders", "at symbol {}", i);
                    }
                    if enc.clone().into_remainders() != pre.into_remainders() {
                        viol!(ctx, "C13", "chain-state-changed-by-failed-encode", "at symbol {}", i);
                    }
                }
                failed_cleanly = true;
                break;
            }
            other => {
                if ctx.any(&["C13", "C09"]) {
                    viol!(ctx, ctx.prop, "chain-reencode-failed", "symbol {} ({}): {:?}", i, run.symbols[i], other);
                }
                return Ok(());
            }
        }
    }
    if failed_cleanly {
        return Ok(());
    }
    // undo precision changes that happened before the first symbol
    while let Some((_, from, _)) = changes.pop() {
        match enc.change(from) {
            Some(Ok(c)) => enc = c,
            Some(Err(e)) => {
                if ctx.on("C13") && !(truncated && e.contains("OutOfRemainders")) { viol!(ctx, "C13", "chain-undo-precision-change-failed", "{}", e); }
                return Ok(());
            }
            None => return Ok(()),
        }
    }
    match enc.into_data(t.binary) {
        Ok((rem_left, recovered)) => {
            let mut full: Vec<u64> = match way {
                Way::Suffix => prefix.iter().map(|&w| w_to(w)).collect(),
                _ => Vec::new(),
            };
            if way == Way::Concat {
                // the unused prefix comes back as the "remainders" part
                full.extend(rem_left.iter().map(|&w| w_to(w)));
            }
            full.extend(recovered.iter().map(|&w| w_to(w)));
            ctx.stats.hit("c13-roundtrips-checked");
            if ctx.on("C13") {
                if truncated {
                    if full != data64 {
                        // wrong output instead of an error
                        viol!(ctx, "C13", "chain-truncated-remainders-give-wrong-data", "recovered {:x?} original {:x?}", full, data64);
                    }
                } else if full != data64 {
                    viol!(ctx, "C13", "chain-data-not-restored", "way {:?}: recovered {:x?} original {:x?} (k={} changes={:?})", way, full, data64, k, run.changes);
                }
                if way != Way::Concat && !truncated && !rem_left.is_empty() {
                    viol!(ctx, "C13", "chain-leftover-remainders", "{} words left on remainders after restoring", rem_left.len());
                }
            }
        }
        Err(c) => {
            if ctx.on("C13") && !truncated {
                viol!(ctx, "C13", "chain-final-export-refused", "is_whole={} heads={}", c.is_whole(), c.heads_debug());
            }
        }
    }
    Ok(())
}

fn compare_twin(ctx: &mut Ctx, a: &[i64], a_end: Option<usize>, b: &[i64], b_end: Option<usize>, j: usize, what: &str) -> Result<(), Violation> {
    ctx.stats.hit("c14-twins-compared");
    if a_end != b_end || a.len() != b.len() {
        viol!(ctx, "C14", "chain-tampering-changes-out-of-data-point", "{}: original ran to {:?} ({} symbols), twin to {:?} ({} symbols)", what, a_end, a.len(), b_end, b.len());
    }
    for i in 0..a.len() {
        if i != j && a[i] != b[i] {
            viol!(ctx, "C14", "chain-tampering-is-not-local", "{} at position {}: symbol {} changed from {} to {}", what, j, i, a[i], b[i]);
        }
    }
    if a[j] != b[j] {
        ctx.stats.hit("probe-tampered-symbol-changed");
    }
    Ok(())
}

// ---------------------------------------------------------------------------------------

pub fn generate(seed: u64, prop: &str, _thorough: bool) -> ChainTrace {
    let mut root = Rng::new(seed);
    let mut rng = root.fork("workload");
    let mut bias = root.fork("bias");
    let mut frng = root.fork("faults");
    let cfg = if bias.chance(1, 2) { bias.usize(3) } else { bias.usize(CONFIGS.len()) };
    let (wb, sb) = CONFIGS[cfg];
    let precisions: Vec<u8> = [1u8, 3, 5, 8, 9, 12, 16, 24, 32, 64].iter().cloned().filter(|p| (*p as u32) <= wb && sb >= wb + *p as u32).collect();
    // precisions that actually have models: those in MENU with pb <= wb
    let usable: Vec<u8> = precisions.iter().cloned().filter(|p| MENU.iter().any(|(pb, q)| q == p && (*pb as u32) <= wb)).collect();
    // C14 speaks about a fixed PRECISION; precision changes can fail depending on the
    // remainders head (which legitimately depends on the decoded symbols)
    // ... so C14 runs either keep one PRECISION or only ever *increase* it (an increase cannot
    // fail and the chunk boundaries stay a function of the schedule alone)
    let ascending = prop == "C14";
    let schedule = bias.chance(1, 3) && usable.len() > 1;
    let p0 = if ascending && schedule { usable[rng.usize((usable.len() + 1) / 2)] } else { *rng.pick(&usable) };
    let mut models: Vec<ModelSpec> = Vec::new();
    let mut by_p: std::collections::BTreeMap<u8, Vec<usize>> = Default::default();
    let want_ps: Vec<u8> = if schedule { usable.clone() } else { vec![p0] };
    for p in &want_ps {
        for _ in 0..1 + rng.usize(2) {
            let pbs: Vec<u8> = MENU.iter().filter(|(pb, q)| q == p && (*pb as u32) <= wb).map(|(pb, _)| *pb).collect();
            let pb = *rng.pick(&pbs);
            let max_syms = 2 + rng.usize(30);
            let spec = gen_spec(&mut rng, pb, *p, max_syms, 30);
            by_p.entry(*p).or_default().push(models.len());
            models.push(spec);
        }
    }
    let binary = bias.chance(2, 3);
    let n_words = if rng.chance(1, 10) { rng.usize(4) } else { 2 + rng.len(12, 60) };
    let mut data: Vec<u64> = (0..n_words).map(|_| rng.word(wb)).collect();
    if !binary {
        if let Some(l) = data.last_mut() {
            if *l == 0 { *l = 1 + rng.below((1u64 << wb.min(63)) - 1); }
        }
    }
    let n_steps = rng.len(12, 80);
    let mut steps = Vec::new();
    let mut p = p0;
    let mut n_dec = 0;
    for _ in 0..n_steps {
        if schedule && rng.chance(1, 6) {
            if ascending {
                let higher: Vec<u8> = usable.iter().cloned().filter(|q| *q > p).collect();
                if higher.is_empty() { continue; }
                p = *rng.pick(&higher);
            } else {
                p = *rng.pick(&usable);
            }
            steps.push(ChainStep::ChangeP { p });
        } else if let Some(ms) = by_p.get(&p) {
            steps.push(ChainStep::Dec { m: *rng.pick(ms) });
            n_dec += 1;
        }
    }
    let way = *bias.pick(&[Way::Suffix, Way::Concat, Way::Live]);
    let tamper = match prop {
        "C14" if n_dec > 0 => {
            let sym_idx = frng.usize(n_dec);
            if frng.chance(1, 2) {
                Tamper::FlipInChunk { sym_idx, bits: (0..1 + frng.usize(3)).map(|_| frng.below(64) as u32).collect() }
            } else {
                Tamper::SwapModel { sym_idx, m: frng.usize(models.len()), via_seek: frng.chance(1, 2) }
            }
        }
        "C13" if frng.chance(1, 6) => Tamper::TruncateRemainders(1 + frng.usize(3)),
        "C09" if n_dec > 0 => {
            let m = frng.usize(models.len());
            let b = build_caught(&models[m], Repr::Plain).expect("buildable");
            let hi = *b.support.iter().max().unwrap();
            let lo = *b.support.iter().min().unwrap();
            let s = b.support[frng.usize(b.support.len())];
            let sym = match frng.below(5) { 0 => hi + 1, 1 => lo - 1, 2 => s + (1i64 << 8) * (1 + frng.below(3) as i64), 3 => s + (1i64 << 32), _ => hi + 1 + frng.below(500) as i64 };
            Tamper::BadSym { at: frng.usize(n_dec), m, sym }
        }
        _ => Tamper::None,
    };
    let clone_from_every = if bias.chance(1, 4) { Some(2 + bias.usize(5)) } else { None };
    ChainTrace { cfg, binary, data, p0, models, steps, way, tamper, clone_from_every }
}
