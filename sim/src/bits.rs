//! World `bits`: bit-level stack / queue coders as containers (DESIGN 3: C16, bit-coder parts
//! of C08 and C18).  Reference model R-BITS = Vec<bool>.

use constriction::backends::Cursor;
use constriction::symbol::exp_golomb::ExpGolomb;
use constriction::symbol::huffman::{DecoderHuffmanTree, EncoderHuffmanTree};
use constriction::symbol::{
    DecoderCodebook, EncoderCodebook, QueueDecoder, QueueEncoder, ReadBitStream, StackCoder, WriteBitStream,
};
use constriction::{BitArray, UnwrapInfallible};
use serde::{Deserialize, Serialize};
use smallvec::SmallVec;

use crate::common::*;
use crate::rng::Rng;

#[derive(Clone, Debug, Serialize, Deserialize, PartialEq)]
pub enum CodebookSpec {
    HuffInt(Vec<u32>),
    HuffFloat(Vec<f64>),
    /// Huffman tree over the weights 2^0, 2^1, ..., 2^(n-1) (as u128): a maximally skewed tree
    /// whose deepest code words have n-1 bits - longer than any machine word for n > 65
    HuffPow2(u8),
    /// Exp-Golomb over an unsigned integer type of this many bits
    ExpGolomb(u8),
}

#[derive(Clone, Copy, Debug, Serialize, Deserialize, PartialEq, Eq, Hash)]
pub enum BView {
    GetCompressed,
    Len,
    AsDecoder,
    Iter,
}

#[derive(Clone, Debug, Serialize, Deserialize, PartialEq)]
pub enum BitOp {
    Write(bool),
    Read,
    Enc { cb: usize, sym: u64 },
    Dec { cb: usize },
    EncBatch { cb: usize, syms: Vec<u64>, reverse: bool },
    DecBatch { cb: usize, n: usize },
    /// out-of-alphabet symbol for a Huffman codebook (C09's Huffman clause)
    BadSym { cb: usize, sym: u64 },
    /// stack: into_compressed -> from_compressed
    Reload,
    Inspect { view: BView, n: usize },
}

#[derive(Clone, Copy, Debug, Serialize, Deserialize, PartialEq, Eq, Hash)]
pub enum BBackend {
    Vec,
    Small,
    Cursor,
}

#[derive(Clone, Debug, Serialize, Deserialize, PartialEq)]
pub struct BitsTrace {
    /// 8, 16, 32, 64, or 0 for usize
    pub word: u8,
    pub queue: bool,
    pub backend: BBackend,
    /// queue only: words already in the sink (`QueueEncoder::from_compressed`)
    pub prefix: Vec<u64>,
    pub codebooks: Vec<CodebookSpec>,
    pub ops: Vec<BitOp>,
}

enum Cb {
    Huff(EncoderHuffmanTree, DecoderHuffmanTree, usize),
    Eg8,
    Eg16,
    Eg32,
    Eg64,
}

fn build_cb(s: &CodebookSpec) -> Option<Cb> {
    std::panic::catch_unwind(|| match s {
        CodebookSpec::HuffInt(w) if !w.is_empty() => Some(Cb::Huff(
            EncoderHuffmanTree::from_probabilities::<u32, _>(w),
            DecoderHuffmanTree::from_probabilities::<u32, _>(w),
            w.len(),
        )),
        CodebookSpec::HuffFloat(w) if !w.is_empty() && w.iter().all(|x| x.is_finite() && *x >= 0.0) => Some(Cb::Huff(
            EncoderHuffmanTree::from_float_probabilities::<f64, _>(w).ok()?,
            DecoderHuffmanTree::from_float_probabilities::<f64, _>(w).ok()?,
            w.len(),
        )),
        CodebookSpec::HuffPow2(n) if *n >= 1 && *n <= 120 => {
            let w: Vec<u128> = (0..*n as u32).map(|i| 1u128 << i).collect();
            Some(Cb::Huff(
                EncoderHuffmanTree::from_probabilities::<u128, _>(&w),
                DecoderHuffmanTree::from_probabilities::<u128, _>(&w),
                w.len(),
            ))
        }
        CodebookSpec::ExpGolomb(8) => Some(Cb::Eg8),
        CodebookSpec::ExpGolomb(16) => Some(Cb::Eg16),
        CodebookSpec::ExpGolomb(32) => Some(Cb::Eg32),
        CodebookSpec::ExpGolomb(64) => Some(Cb::Eg64),
        _ => None,
    })
    .ok()
    .flatten()
}

impl Cb {
    fn valid(&self, sym: u64) -> bool {
        match self {
            Cb::Huff(_, _, n) => (sym as usize) < *n && sym < (1 << 40),
            Cb::Eg8 => sym <= u8::MAX as u64,
            Cb::Eg16 => sym <= u16::MAX as u64,
            Cb::Eg32 => sym <= u32::MAX as u64,
            Cb::Eg64 => true,
        }
    }
    /// the codeword in prefix order, as the codebook itself emits it (codebook correctness is
    /// C15, not decided here)
    fn codeword(&self, sym: u64) -> Option<Vec<bool>> {
        let mut v = Vec::new();
        let emit = |b: bool, v: &mut Vec<bool>| -> Result<(), ()> {
            v.push(b);
            Ok(())
        };
        let r = match self {
            // Huffman trees emit in suffix order; the prefix order is its reverse (computed here,
            // not through the trait's default `encode_symbol_prefix`)
            Cb::Huff(e, _, _) => {
                let ok = e.encode_symbol_suffix(sym as usize, |b| emit(b, &mut v)).is_ok();
                v.reverse();
                ok
            }
            Cb::Eg8 => ExpGolomb::<u8>::new().encode_symbol_prefix(sym as u8, |b| emit(b, &mut v)).is_ok(),
            Cb::Eg16 => ExpGolomb::<u16>::new().encode_symbol_prefix(sym as u16, |b| emit(b, &mut v)).is_ok(),
            Cb::Eg32 => ExpGolomb::<u32>::new().encode_symbol_prefix(sym as u32, |b| emit(b, &mut v)).is_ok(),
            Cb::Eg64 => ExpGolomb::<u64>::new().encode_symbol_prefix(sym, |b| emit(b, &mut v)).is_ok(),
        };
        if r {
            Some(v)
        } else {
            None
        }
    }
    /// reference decode from an iterator of bits: Ok(symbol) or Err(description)
    fn ref_decode(&self, bits: &mut dyn Iterator<Item = bool>) -> Result<u64, String> {
        let it = bits.map(Ok::<bool, core::convert::Infallible>);
        match self {
            Cb::Huff(_, d, _) => d.decode_symbol(it).map(|s| s as u64).map_err(|e| fe(&e)),
            Cb::Eg8 => ExpGolomb::<u8>::new().decode_symbol(it).map(|s| s as u64).map_err(|e| fe(&e)),
            Cb::Eg16 => ExpGolomb::<u16>::new().decode_symbol(it).map(|s| s as u64).map_err(|e| fe(&e)),
            Cb::Eg32 => ExpGolomb::<u32>::new().decode_symbol(it).map(|s| s as u64).map_err(|e| fe(&e)),
            Cb::Eg64 => ExpGolomb::<u64>::new().decode_symbol(it).map_err(|e| fe(&e)),
        }
    }
}

fn fe<A: core::fmt::Debug, B: core::fmt::Debug>(e: &constriction::CoderError<constriction::symbol::SymbolCodeError<A>, B>) -> String {
    match e {
        constriction::CoderError::Frontend(constriction::symbol::SymbolCodeError::OutOfCompressedData) => "OutOfCompressedData".into(),
        constriction::CoderError::Frontend(constriction::symbol::SymbolCodeError::InvalidCodeword(_)) => "InvalidCodeword".into(),
        constriction::CoderError::Backend(b) => format!("Backend({:?})", b),
    }
}

macro_rules! viol {
    ($ctx:expr, $prop:expr, $tag:expr, $($fmt:tt)*) => {
        return Err(Violation::new($prop, $tag, $ctx.op, format!($($fmt)*)))
    };
}

macro_rules! with_cb_enc {
    ($cb:expr, $sym:expr, |$c:ident, $s:ident| $e:expr) => {
        match $cb {
            Cb::Huff(enc, _, _) => { let $c = enc; let $s = $sym as usize; $e }
            Cb::Eg8 => { let $c = &ExpGolomb::<u8>::new(); let $s = $sym as u8; $e }
            Cb::Eg16 => { let $c = &ExpGolomb::<u16>::new(); let $s = $sym as u16; $e }
            Cb::Eg32 => { let $c = &ExpGolomb::<u32>::new(); let $s = $sym as u32; $e }
            Cb::Eg64 => { let $c = &ExpGolomb::<u64>::new(); let $s = $sym as u64; $e }
        }
    };
}
/// the iterator form `decode_iid_symbols(n, codebook)`: (reported length, items)
macro_rules! with_cb_dec_iter {
    ($cb:expr, $x:expr, $n:expr) => {
        match $cb {
            Cb::Huff(_, dec, _) => { let it = $x.decode_iid_symbols($n, dec); let l = it.len(); (l, it.map(|r| r.map(|s| s as u64).map_err(|e| fe(&e))).collect::<Vec<Result<u64, String>>>()) }
            Cb::Eg8 => { let k = ExpGolomb::<u8>::new(); let it = $x.decode_iid_symbols($n, &k); let l = it.len(); (l, it.map(|r| r.map(|s| s as u64).map_err(|e| fe(&e))).collect::<Vec<Result<u64, String>>>()) }
            Cb::Eg16 => { let k = ExpGolomb::<u16>::new(); let it = $x.decode_iid_symbols($n, &k); let l = it.len(); (l, it.map(|r| r.map(|s| s as u64).map_err(|e| fe(&e))).collect::<Vec<Result<u64, String>>>()) }
            Cb::Eg32 => { let k = ExpGolomb::<u32>::new(); let it = $x.decode_iid_symbols($n, &k); let l = it.len(); (l, it.map(|r| r.map(|s| s as u64).map_err(|e| fe(&e))).collect::<Vec<Result<u64, String>>>()) }
            Cb::Eg64 => { let k = ExpGolomb::<u64>::new(); let it = $x.decode_iid_symbols($n, &k); let l = it.len(); (l, it.map(|r| r.map(|s| s as u64).map_err(|e| fe(&e))).collect::<Vec<Result<u64, String>>>()) }
        }
    };
}

macro_rules! with_cb_dec {
    ($cb:expr, |$c:ident| $e:expr) => {
        match $cb {
            Cb::Huff(_, dec, _) => { let $c = dec; $e.map(|s| s as u64).map_err(|e| fe(&e)) }
            Cb::Eg8 => { let $c = &ExpGolomb::<u8>::new(); $e.map(|s| s as u64).map_err(|e| fe(&e)) }
            Cb::Eg16 => { let $c = &ExpGolomb::<u16>::new(); $e.map(|s| s as u64).map_err(|e| fe(&e)) }
            Cb::Eg32 => { let $c = &ExpGolomb::<u32>::new(); $e.map(|s| s as u64).map_err(|e| fe(&e)) }
            Cb::Eg64 => { let $c = &ExpGolomb::<u64>::new(); $e.map(|s| s as u64).map_err(|e| fe(&e)) }
        }
    };
}

pub fn exec(t: &BitsTrace, ctx: &mut Ctx, skip_inspect: bool) -> Result<Vec<u64>, Violation> {
    match (t.word, t.queue) {
        (8, false) => exec_stack::<u8>(t, ctx, skip_inspect),
        (16, false) => exec_stack::<u16>(t, ctx, skip_inspect),
        (32, false) => exec_stack::<u32>(t, ctx, skip_inspect),
        (64, false) => exec_stack::<u64>(t, ctx, skip_inspect),
        (0, false) => exec_stack::<usize>(t, ctx, skip_inspect),
        (8, true) => exec_queue::<u8>(t, ctx, skip_inspect),
        (16, true) => exec_queue::<u16>(t, ctx, skip_inspect),
        (32, true) => exec_queue::<u32>(t, ctx, skip_inspect),
        (64, true) => exec_queue::<u64>(t, ctx, skip_inspect),
        (0, true) => exec_queue::<usize>(t, ctx, skip_inspect),
        _ => panic!("harness: bad word size"),
    }
}

enum St<W: BitArray> {
    V(StackCoder<W, Vec<W>>),
    Sm(StackCoder<W, SmallVec<[W; 2]>>),
    Cur(StackCoder<W, Cursor<W, Vec<W>>>),
}

macro_rules! on_st {
    ($c:expr, $x:ident => $e:expr) => {
        match $c {
            St::V($x) => $e,
            St::Sm($x) => $e,
            St::Cur($x) => $e,
        }
    };
}

fn be<E: core::fmt::Debug>(e: E) -> String {
    format!("Backend({:?})", e)
}

fn exec_stack<W: BitArray + Default>(t: &BitsTrace, ctx: &mut Ctx, skip_inspect: bool) -> Result<Vec<u64>, Violation> {
    let cbs: Vec<Option<Cb>> = t.codebooks.iter().map(build_cb).collect();
    let mut c: St<W> = match t.backend {
        // `new()` or `with_bit_capacity()` (a function of the trace)
        BBackend::Vec => St::V(if t.ops.len() & 1 == 1 { StackCoder::with_bit_capacity(t.ops.len() * 3) } else { StackCoder::new() }),
        BBackend::Small => St::Sm(StackCoder::new()),
        BBackend::Cursor => {
            // sometimes a sink of a few words only: writes start to fail (a function of the trace)
            let cap = if t.ops.len() % 2 == 0 { 1 + (t.ops.len() / 2) % 2 } else { 4096 };
            let buf = vec![W::default(); cap];
            St::Cur(StackCoder::from_compressed(Cursor::new_at_write_beginning(buf)).map_err(|_| ()).expect("empty cursor"))
        }
    };
    let mut r: Vec<bool> = Vec::new();
    let mut out: Vec<u64> = Vec::new();
    let wbits = W::BITS;
    // a tiny bounded sink: encodes may legitimately fail half way through a code word
    let tiny_sink = t.backend == BBackend::Cursor && t.ops.len() % 2 == 0;

    for (i, op) in t.ops.iter().enumerate() {
        ctx.op = i;
        match op {
            BitOp::Write(b) => {
                if on_st!(&mut c, x => x.write_bit(*b).is_err()) {
                    // the sink is full: the bit was refused and the stack is what it was - the
                    // following reads and exports check the content, this checks the length
                    ctx.stats.hit("fault-write-refused");
                    let len = on_st!(&c, x => x.len());
                    if ctx.any(&["C16", "C09"]) && len != r.len() {
                        viol!(ctx, ctx.prop, "stack-changed-by-refused-write", "len()={} after a refused write_bit, {} bits are on the stack", len, r.len());
                    }
                    continue;
                }
                r.push(*b);
                ctx.stats.hit("op-write-bit");
            }
            BitOp::Read => {
                let got = on_st!(&mut c, x => x.read_bit().map_err(be));
                let want = r.pop();
                ctx.stats.hit("op-read-bit");
                out.push(match got { Ok(Some(true)) => 1, Ok(Some(false)) => 0, _ => 2 });
                if ctx.on("C16") && got != Ok(want) {
                    viol!(ctx, "C16", "stack-read-bit-mismatch", "read_bit()={:?}, last written bit was {:?}", got, want);
                }
                if got != Ok(want) { return Ok(out); }
            }
            BitOp::Enc { cb, sym } => {
                let Some(Some(cbk)) = cbs.get(*cb) else { ctx.stats.hit("skipped-op"); continue };
                if !cbk.valid(*sym) { ctx.stats.hit("skipped-op"); continue }
                let Some(word) = cbk.codeword(*sym) else { ctx.stats.hit("skipped-op"); continue };
                let res = on_st!(&mut c, x => with_cb_enc!(cbk, *sym, |k, s| x.encode_symbol(s, k).is_ok()));
                if !res {
                    if tiny_sink { ctx.stats.hit("fault-write-refused"); return Ok(out); }
                    if ctx.on("C16") { viol!(ctx, "C16", "stack-encode-symbol-failed", "cb {:?} sym {}", t.codebooks[*cb], sym); }
                    return Ok(out);
                }
                // the stack receives the codeword in reverse so that popping yields prefix order
                r.extend(word.iter().rev());
                ctx.stats.hit("op-enc-symbol");
                if matches!(cbk, Cb::Eg8 | Cb::Eg16 | Cb::Eg32 | Cb::Eg64) && word.len() > 2 * (match cbk { Cb::Eg8 => 8, Cb::Eg16 => 16, Cb::Eg32 => 32, _ => 64 }) { ctx.stats.hit("probe-expgolomb-max"); }
            }
            BitOp::EncBatch { cb, syms, reverse } => {
                let Some(Some(cbk)) = cbs.get(*cb) else { ctx.stats.hit("skipped-op"); continue };
                if !syms.iter().all(|s| cbk.valid(*s)) { ctx.stats.hit("skipped-op"); continue }
                // logical order: syms[0] first
                let ok = on_st!(&mut c, x => match cbk {
                    Cb::Huff(e, _, _) => {
                        let v: Vec<usize> = syms.iter().map(|s| *s as usize).collect();
                        if *reverse { let mut v2 = v.clone(); v2.reverse(); x.encode_iid_symbols_reverse(v2, e).is_ok() } else { x.encode_iid_symbols(v, e).is_ok() }
                    }
                    Cb::Eg8 => { let k = ExpGolomb::<u8>::new(); let v: Vec<u8> = syms.iter().map(|s| *s as u8).collect(); if *reverse { let mut v2 = v.clone(); v2.reverse(); x.encode_iid_symbols_reverse(v2, &k).is_ok() } else { x.encode_symbols(v.iter().map(|s| (*s, &k))).is_ok() } }
                    Cb::Eg16 => { let k = ExpGolomb::<u16>::new(); let v: Vec<u16> = syms.iter().map(|s| *s as u16).collect(); if *reverse { let mut v2 = v.clone(); v2.reverse(); x.encode_iid_symbols_reverse(v2, &k).is_ok() } else { x.encode_symbols(v.iter().map(|s| (*s, &k))).is_ok() } }
                    Cb::Eg32 => { let k = ExpGolomb::<u32>::new(); let v: Vec<u32> = syms.iter().map(|s| *s as u32).collect(); if *reverse { let mut v2 = v.clone(); v2.reverse(); x.encode_iid_symbols_reverse(v2, &k).is_ok() } else { x.encode_symbols(v.iter().map(|s| (*s, &k))).is_ok() } }
                    Cb::Eg64 => { let k = ExpGolomb::<u64>::new(); let v: Vec<u64> = syms.clone(); if *reverse { let mut v2 = v.clone(); v2.reverse(); x.encode_iid_symbols_reverse(v2, &k).is_ok() } else { x.encode_symbols(v.iter().map(|s| (*s, &k))).is_ok() } }
                });
                if !ok {
                    if tiny_sink { ctx.stats.hit("fault-write-refused"); return Ok(out); }
                    if ctx.on("C16") { viol!(ctx, "C16", "stack-encode-batch-failed", "cb {:?}", t.codebooks[*cb]); }
                    return Ok(out);
                }
                for s in syms {
                    let word = cbk.codeword(*s).expect("valid");
                    r.extend(word.iter().rev());
                }
                ctx.stats.hit("op-enc-batch");
            }
            BitOp::Dec { cb } | BitOp::DecBatch { cb, .. } => {
                let Some(Some(cbk)) = cbs.get(*cb) else { ctx.stats.hit("skipped-op"); continue };
                let n = if let BitOp::DecBatch { n, .. } = op { *n } else { 1 };
                // even batch sizes go through the iterator form `decode_iid_symbols`; the items
                // are then compared one by one exactly like single decodes
                let mut pre: std::collections::VecDeque<Result<u64, String>> = Default::default();
                if n >= 2 && n % 2 == 0 {
                    let (len, items) = on_st!(&mut c, x => with_cb_dec_iter!(cbk, x, n));
                    ctx.stats.hit("op-dec-iid-iterator");
                    if ctx.on("C16") && (len != n || items.len() != n) {
                        viol!(ctx, "C16", "decode-iid-symbols-length", "decode_iid_symbols({}) reported len {} and yielded {} items", n, len, items.len());
                    }
                    pre = items.into();
                }
                let via_iter = !pre.is_empty();
                for _ in 0..n {
                    let mut rc = r.clone();
                    let want = {
                        let mut it = std::iter::from_fn(|| rc.pop());
                        cbk.ref_decode(&mut it)
                    };
                    let got: Result<u64, String> = if via_iter {
                        match pre.pop_front() { Some(g) => g, None => break }
                    } else {
                        on_st!(&mut c, x => with_cb_dec!(cbk, |k| x.decode_symbol(k)))
                    };
                    ctx.stats.hit("op-dec-symbol");
                    out.push(match &got { Ok(s) => *s, Err(_) => u64::MAX });
                    if ctx.on("C16") && got != want {
                        viol!(ctx, "C16", "stack-decode-symbol-mismatch", "cb {:?}: got {:?}, reference (same codebook over R-BITS) {:?}", t.codebooks[*cb], got, want);
                    }
                    if got != want || got.is_err() {
                        return Ok(out);
                    }
                    r = rc;
                }
            }
            BitOp::BadSym { cb, sym } => {
                let Some(Some(cbk)) = cbs.get(*cb) else { ctx.stats.hit("skipped-op"); continue };
                let Cb::Huff(e, _, n) = cbk else { ctx.stats.hit("skipped-op"); continue };
                if (*sym as usize) < *n { ctx.stats.hit("skipped-op"); continue }
                let len_before = on_st!(&c, x => x.len());
                let rejected = on_st!(&mut c, x => matches!(x.encode_symbol(*sym as usize, e), Err(constriction::CoderError::Frontend(constriction::DefaultEncoderFrontendError::ImpossibleSymbol))));
                ctx.stats.hit("fault-badsym-injected");
                if ctx.on("C09") {
                    if !rejected {
                        viol!(ctx, "C09", "huffman-impossible-symbol-not-rejected", "sym={} alphabet size {}", sym, n);
                    }
                    if on_st!(&c, x => x.len()) != len_before {
                        viol!(ctx, "C09", "bits-changed-by-rejected-symbol", "len {} -> {}", len_before, on_st!(&c, x => x.len()));
                    }
                } else if !rejected {
                    return Ok(out);
                }
            }
            BitOp::Reload => {
                let len_before = on_st!(&c, x => x.len());
                ctx.stats.hit("op-reload");
                match r.len() as u32 % wbits as u32 { 0 => ctx.stats.hit("probe-fill-0"), 1 => ctx.stats.hit("probe-fill-1"), x if x == wbits as u32 - 1 => ctx.stats.hit("probe-fill-w-1"), _ => {} }
                c = match c {
                    St::V(x) => {
                        let words = x.into_compressed().unwrap_infallible();
                        match StackCoder::from_compressed(words) {
                            Ok(n) => St::V(n),
                            Err(_) => { if ctx.on("C16") { viol!(ctx, "C16", "stack-reimport-refused", "len was {}", len_before); } return Ok(out); }
                        }
                    }
                    St::Sm(x) => {
                        let words = x.into_compressed().unwrap_infallible();
                        match StackCoder::from_compressed(words) {
                            Ok(n) => St::Sm(n),
                            Err(_) => { if ctx.on("C16") { viol!(ctx, "C16", "stack-reimport-refused", "len was {}", len_before); } return Ok(out); }
                        }
                    }
                    St::Cur(x) => {
                        match x.into_compressed() {
                            Ok(cur) => match StackCoder::from_compressed(cur) {
                                Ok(n) => St::Cur(n),
                                Err(_) => { if ctx.on("C16") { viol!(ctx, "C16", "stack-reimport-refused", "len was {}", len_before); } return Ok(out); }
                            },
                            Err(_) => return Ok(out),
                        }
                    }
                };
            }
            BitOp::Inspect { view, n } => {
                if skip_inspect { continue; }
                ctx.stats.hit(&format!("inspect-{:?}", view));
                let len_before = on_st!(&c, x => x.len());
                match (&mut c, view) {
                    (St::V(x), BView::GetCompressed) => {
                        let shown: Vec<W> = x.get_compressed().to_vec();
                        // the coder is not Clone: "finishing now" is observed on an equivalent
                        // fresh coder that received the same bits
                        let mut fresh = StackCoder::<W, Vec<W>>::new();
                        for b in &r { fresh.write_bit(*b).unwrap_infallible(); }
                        let expect = fresh.into_compressed().unwrap_infallible();
                        if ctx.on("C08") && shown != expect {
                            viol!(ctx, "C08", "stack-get-compressed-view-differs", "view {:x?} export {:x?}", shown, expect);
                        }
                    }
                    (St::V(x), BView::AsDecoder) | (St::V(x), BView::Iter) => {
                        let got: Vec<bool> = if *view == BView::Iter { x.iter().take(*n).map(|b| b.unwrap_infallible()).collect() } else { let mut d = x.as_decoder(); (0..*n).filter_map(|_| d.read_bit().unwrap_infallible()).collect() };
                        let want: Vec<bool> = r.iter().rev().take(*n).cloned().collect();
                        if ctx.any(&["C16", "C08"]) && got != want {
                            viol!(ctx, ctx.prop, "stack-temp-decoder-mismatch", "got {:?} want {:?}", got, want);
                        }
                    }
                    _ => {}
                }
                if ctx.on("C08") && on_st!(&c, x => x.len()) != len_before {
                    viol!(ctx, "C08", "stack-inspection-left-a-trace", "len {} -> {}", len_before, on_st!(&c, x => x.len()));
                }
            }
        }
        // monitors
        let len = on_st!(&c, x => x.len());
        ctx.stats.state(hash_mix(len as u64 % (2 * wbits as u64), t.word as u64));
        if ctx.any(&["C16", "C18"]) {
            if len != r.len() {
                viol!(ctx, ctx.prop, "stack-len-mismatch", "len()={} but {} bits are on the stack", len, r.len());
            }
            if on_st!(&c, x => x.is_empty()) != r.is_empty() {
                viol!(ctx, ctx.prop, "stack-is-empty-mismatch", "is_empty()={} with {} bits", on_st!(&c, x => x.is_empty()), r.len());
            }
        }
    }
    // drain: everything that is left must come back in reverse order
    ctx.op = t.ops.len();
    if ctx.on("C16") {
        // three ways of draining, chosen by the trace: read_bit, the Iterator impl with its
        // ExactSizeIterator length, or the consuming into_iterator / into_decoder
        match (t.ops.len() % 3, c) {
            (1, St::V(x)) => {
                ctx.stats.hit("drain-into-iterator");
                let got: Vec<bool> = x.into_iterator().map(|b| b.unwrap_infallible()).collect();
                let want: Vec<bool> = r.iter().rev().cloned().collect();
                if got != want {
                    viol!(ctx, "C16", "stack-drain-mismatch", "into_iterator() yields {} bits, {} were on the stack (first difference at {:?})", got.len(), want.len(), got.iter().zip(want.iter()).position(|(a, b)| a != b));
                }
            }
            (2, St::V(mut x)) => {
                ctx.stats.hit("drain-iterator-len");
                let mut k = 0;
                loop {
                    let n = ExactSizeIterator::len(&x);
                    if n != r.len() {
                        viol!(ctx, "C16", "stack-len-mismatch", "ExactSizeIterator::len()={} with {} bits left", n, r.len());
                    }
                    let got = x.next().map(|b| b.unwrap_infallible());
                    let want = r.pop();
                    if got != want {
                        viol!(ctx, "C16", "stack-drain-mismatch", "bit {} from the top: got {:?} want {:?}", k, got, want);
                    }
                    if want.is_none() { break; }
                    k += 1;
                }
            }
            (_, mut c) => {
                ctx.stats.hit("drain-read-bit");
                let mut k = 0;
                while let Some(want) = r.pop() {
                    let got = on_st!(&mut c, x => x.read_bit().map_err(be));
                    if got != Ok(Some(want)) {
                        viol!(ctx, "C16", "stack-drain-mismatch", "bit {} from the top: got {:?} want {}", k, got, want);
                    }
                    k += 1;
                }
                let got = on_st!(&mut c, x => x.read_bit().map_err(be));
                if got != Ok(None) {
                    viol!(ctx, "C16", "stack-not-empty-after-drain", "read_bit()={:?} after all bits were popped", got);
                }
            }
        }
    }
    Ok(out)
}

enum Qe<W: BitArray> {
    V(QueueEncoder<W, Vec<W>>),
    Sm(QueueEncoder<W, SmallVec<[W; 2]>>),
}

fn exec_queue<W: BitArray + Default>(t: &BitsTrace, ctx: &mut Ctx, skip_inspect: bool) -> Result<Vec<u64>, Violation> {
    let cbs: Vec<Option<Cb>> = t.codebooks.iter().map(build_cb).collect();
    let prefix: Vec<W> = t.prefix.iter().map(|&w| w_from(w)).collect();
    let mut c: Qe<W> = match t.backend {
        BBackend::Small => Qe::Sm(QueueEncoder::from_compressed(SmallVec::from_vec(prefix.clone()))),
        _ => Qe::V(QueueEncoder::from_compressed(prefix.clone())),
    };
    macro_rules! on_q {
        ($c:expr, $x:ident => $e:expr) => {
            match $c {
                Qe::V($x) => $e,
                Qe::Sm($x) => $e,
            }
        };
    }
    let wbits = W::BITS;
    // reference: the prefix words' bits (LSB first), then everything written
    let mut r: Vec<bool> = Vec::new();
    for w in &prefix {
        for b in 0..wbits {
            r.push((*w >> b) & W::one() == W::one());
        }
    }
    if !prefix.is_empty() { ctx.stats.hit("fault-prefilled-sink"); }
    let mut out = Vec::new();
    // which symbols were written after which (for the decode phase)
    let mut log: Vec<(usize, u64)> = Vec::new();
    let mut pure_symbols = prefix.is_empty();
    for (i, op) in t.ops.iter().enumerate() {
        ctx.op = i;
        match op {
            BitOp::Write(b) => {
                on_q!(&mut c, x => x.write_bit(*b).unwrap_infallible());
                r.push(*b);
                pure_symbols = false;
                ctx.stats.hit("op-write-bit");
            }
            BitOp::Enc { cb, sym } => {
                let Some(Some(cbk)) = cbs.get(*cb) else { ctx.stats.hit("skipped-op"); continue };
                if !cbk.valid(*sym) { ctx.stats.hit("skipped-op"); continue }
                let Some(word) = cbk.codeword(*sym) else { ctx.stats.hit("skipped-op"); continue };
                let ok = on_q!(&mut c, x => with_cb_enc!(cbk, *sym, |k, s| x.encode_symbol(s, k).is_ok()));
                if !ok {
                    if ctx.on("C16") { viol!(ctx, "C16", "queue-encode-symbol-failed", "cb {:?} sym {}", t.codebooks[*cb], sym); }
                    return Ok(out);
                }
                r.extend(word.iter());
                log.push((*cb, *sym));
                ctx.stats.hit("op-enc-symbol");
            }
            BitOp::EncBatch { cb, syms, .. } => {
                let Some(Some(cbk)) = cbs.get(*cb) else { ctx.stats.hit("skipped-op"); continue };
                if !syms.iter().all(|s| cbk.valid(*s)) { ctx.stats.hit("skipped-op"); continue }
                let ok = on_q!(&mut c, x => match cbk {
                    Cb::Huff(e, _, _) => x.encode_iid_symbols(syms.iter().map(|s| *s as usize), e).is_ok(),
                    Cb::Eg8 => x.encode_iid_symbols(syms.iter().map(|s| *s as u8), &ExpGolomb::<u8>::new()).is_ok(),
                    Cb::Eg16 => x.encode_iid_symbols(syms.iter().map(|s| *s as u16), &ExpGolomb::<u16>::new()).is_ok(),
                    Cb::Eg32 => x.encode_iid_symbols(syms.iter().map(|s| *s as u32), &ExpGolomb::<u32>::new()).is_ok(),
                    Cb::Eg64 => x.encode_iid_symbols(syms.iter().cloned(), &ExpGolomb::<u64>::new()).is_ok(),
                });
                if !ok {
                    if ctx.on("C16") { viol!(ctx, "C16", "queue-encode-batch-failed", "cb {:?}", t.codebooks[*cb]); }
                    return Ok(out);
                }
                for s in syms {
                    r.extend(cbk.codeword(*s).expect("valid").iter());
                    log.push((*cb, *s));
                }
                ctx.stats.hit("op-enc-batch");
            }
            BitOp::BadSym { cb, sym } => {
                let Some(Some(cbk)) = cbs.get(*cb) else { ctx.stats.hit("skipped-op"); continue };
                let Cb::Huff(e, _, n) = cbk else { ctx.stats.hit("skipped-op"); continue };
                if (*sym as usize) < *n { ctx.stats.hit("skipped-op"); continue }
                let res = on_q!(&mut c, x => x.encode_symbol(*sym as usize, e));
                ctx.stats.hit("fault-badsym-injected");
                let rejected = matches!(res, Err(constriction::CoderError::Frontend(constriction::DefaultEncoderFrontendError::ImpossibleSymbol)));
                if ctx.on("C09") && !rejected {
                    viol!(ctx, "C09", "huffman-impossible-symbol-not-rejected", "sym={} alphabet size {}", sym, n);
                }
                if !rejected { return Ok(out); }
            }
            BitOp::Inspect { view, .. } => {
                if skip_inspect { continue; }
                ctx.stats.hit(&format!("inspect-{:?}", view));
                if let (Qe::V(x), BView::GetCompressed) = (&mut c, view) {
                    let shown: Vec<W> = x.get_compressed().to_vec();
                    let mut fresh = QueueEncoder::<W, Vec<W>>::from_compressed(prefix.clone());
                    for b in r.iter().skip(prefix.len() * wbits) { fresh.write_bit(*b).unwrap_infallible(); }
                    let expect = fresh.into_compressed().unwrap_infallible();
                    if ctx.on("C08") && shown != expect {
                        viol!(ctx, "C08", "queue-get-compressed-view-differs", "view {:x?} export {:x?}", shown, expect);
                    }
                }
            }
            _ => { ctx.stats.hit("skipped-op"); }
        }
        ctx.stats.state(hash_mix(r.len() as u64 % (2 * wbits as u64), 1000 + t.word as u64));
        if ctx.any(&["C16", "C18"]) {
            let len = on_q!(&c, x => x.len());
            if len != r.len() {
                viol!(ctx, ctx.prop, "queue-len-mismatch", "len()={} but {} bits were written (incl. prefix)", len, r.len());
            }
            if on_q!(&c, x => x.is_empty()) != r.is_empty() {
                viol!(ctx, ctx.prop, "queue-is-empty-mismatch", "is_empty() wrong with {} bits", r.len());
            }
        }
    }
    ctx.op = t.ops.len();
    // consumer
    let words: Vec<W> = match c {
        Qe::V(x) => {
            if t.ops.len() % 2 == 1 && ctx.on("C16") {
                // the consuming iterator must yield the written bits, then only padding
                ctx.stats.hit("drain-overshooting-iter");
                let fresh = {
                    let mut f = QueueEncoder::<W, Vec<W>>::from_compressed(prefix.clone());
                    for b in r.iter().skip(prefix.len() * wbits) { f.write_bit(*b).unwrap_infallible(); }
                    f
                };
                let got: Vec<bool> = fresh.into_overshooting_iter().unwrap_infallible().map(|b| b.unwrap_infallible()).collect();
                if got.len() < r.len() || got[..r.len()] != r[..] || got[r.len()..].iter().any(|b| *b) || got.len() - r.len() >= wbits {
                    viol!(ctx, "C16", "queue-overshooting-iter-mismatch", "{} bits written, iterator yields {} bits", r.len(), got.len());
                }
            }
            x.into_compressed().unwrap_infallible()
        }
        Qe::Sm(x) => x.into_compressed().unwrap_infallible().to_vec(),
    };
    out.extend(words.iter().map(|&w| w_to(w)));
    match r.len() as u32 % wbits as u32 { 0 => ctx.stats.hit("probe-fill-0"), 1 => ctx.stats.hit("probe-fill-1"), x if x == wbits as u32 - 1 => ctx.stats.hit("probe-fill-w-1"), _ => {} }
    if ctx.any(&["C16", "C18"]) {
        if pure_symbols && !log.is_empty() {
            // symbol-level round trip through QueueDecoder::decode_symbol
            let mut d = QueueDecoder::from_compressed(Cursor::new_at_write_beginning(words.clone()));
            for (k, (cb, sym)) in log.iter().enumerate() {
                let cbk = cbs[*cb].as_ref().expect("was valid");
                let got: Result<u64, String> = with_cb_dec!(cbk, |kk| d.decode_symbol(kk));
                if ctx.on("C16") && got != Ok(*sym) {
                    viol!(ctx, "C16", "queue-decode-symbol-mismatch", "symbol {}: got {:?} want {}", k, got, sym);
                }
            }
            if !d.maybe_exhausted() {
                viol!(ctx, ctx.prop, "queue-decoder-not-exhausted", "maybe_exhausted()=false after the last symbol");
            }
            ctx.stats.hit("queue-symbol-roundtrips");
        }
        let mut d = QueueDecoder::from_compressed(Cursor::new_at_write_beginning(words.clone()));
        for (k, want) in r.iter().enumerate() {
            let got = d.read_bit().unwrap_infallible();
            if ctx.on("C16") && got != Some(*want) {
                viol!(ctx, "C16", "queue-read-bit-mismatch", "bit {}: got {:?} want {}", k, got, want);
            }
        }
        if !d.maybe_exhausted() {
            viol!(ctx, ctx.prop, "queue-decoder-not-exhausted", "maybe_exhausted()=false after the last real bit");
        }
        // only zero padding may follow, then end
        let mut pad = 0;
        loop {
            match d.read_bit().unwrap_infallible() {
                Some(false) => pad += 1,
                Some(true) => viol!(ctx, "C16", "queue-nonzero-padding", "a one bit follows the data after {} padding bits", pad),
                None => break,
            }
            if pad > wbits {
                viol!(ctx, "C16", "queue-too-much-padding", "{} padding bits", pad);
            }
        }
        ctx.stats.hit("queue-roundtrips");
    }
    Ok(out)
}

// ---------------------------------------------------------------------------------------

fn gen_symbol(rng: &mut Rng, cb: &CodebookSpec) -> u64 {
    match cb {
        CodebookSpec::HuffInt(w) => rng.below(w.len() as u64),
        CodebookSpec::HuffFloat(w) => rng.below(w.len() as u64),
        // the low symbols are the deep ones
        CodebookSpec::HuffPow2(n) => if rng.chance(1, 2) { rng.below((*n as u64).min(4)) } else { rng.below(*n as u64) },
        CodebookSpec::ExpGolomb(bits) => {
            let max = if *bits == 64 { u64::MAX } else { (1u64 << bits) - 1 };
            let v = match rng.below(8) {
                0 => 0,
                1 => 1,
                2 => max,
                3 => max - 1,
                4 => (1u64 << rng.below(*bits as u64)).wrapping_sub(1),
                5 => 1u64 << rng.below(*bits as u64),
                6 => (1u64 << rng.below(*bits as u64)).wrapping_add(1),
                _ => rng.next_u64(),
            };
            v & max
        }
    }
}

pub fn generate(seed: u64, prop: &str, _thorough: bool) -> BitsTrace {
    let mut root = Rng::new(seed);
    let mut rng = root.fork("workload");
    let mut bias = root.fork("bias");
    let word = *bias.pick(&[8u8, 8, 16, 32, 64, 0]);
    let queue = bias.chance(2, 5);
    let backend = *bias.pick(&[BBackend::Vec, BBackend::Vec, BBackend::Small, BBackend::Cursor]);
    let n_cb = 1 + rng.usize(3);
    let codebooks: Vec<CodebookSpec> = (0..n_cb)
        .map(|_| match rng.below(5) {
            4 => CodebookSpec::HuffPow2(if rng.chance(1, 2) { 60 + rng.below(60) as u8 } else { 1 + rng.below(40) as u8 }),
            0 => CodebookSpec::HuffInt((0..1 + rng.usize(12)).map(|_| rng.below(20) as u32).collect()),
            1 => CodebookSpec::HuffFloat((0..1 + rng.usize(12)).map(|_| (rng.f64() * 8.0).floor() / 4.0).collect()),
            _ => CodebookSpec::ExpGolomb(*rng.pick(&[8u8, 16, 32, 64])),
        })
        .collect();
    let prefix: Vec<u64> = if queue && bias.chance(1, 4) { (0..1 + rng.usize(3)).map(|_| rng.word(if word == 0 { 64 } else { word as u32 })).collect() } else { Vec::new() };
    let n_ops = rng.len(20, 150);
    let bits_only = bias.chance(1, 4);
    let symbols_only = !bits_only && bias.chance(1, 2);
    let w_inspect = if prop == "C08" { 30 } else { 5 };
    let w_bad = if prop == "C09" { 20 } else { 0 };
    let mut ops = Vec::new();
    // shadow: sequence of pushed items (bit or (cb, sym)) to keep decodes well-formed
    #[derive(Clone)]
    enum Item { Bit, Sym(usize) }
    let mut shadow: Vec<Item> = Vec::new();
    while ops.len() < n_ops {
        let r = rng.below(100);
        if r < w_inspect {
            ops.push(BitOp::Inspect { view: *rng.pick(&[BView::GetCompressed, BView::GetCompressed, BView::Len, BView::AsDecoder, BView::Iter]), n: rng.usize(20) });
        } else if r < w_inspect + w_bad {
            let cb = rng.usize(n_cb);
            match &codebooks[cb] {
                CodebookSpec::HuffInt(w) => ops.push(BitOp::BadSym { cb, sym: match rng.below(5) { 0 => (1u64 << 63) | rng.below(w.len() as u64 + 1), 1 => u64::MAX - rng.below(3), 2 => (1u64 << (32 + rng.below(31))) + rng.below(w.len() as u64 + 1), _ => w.len() as u64 + rng.below(3) } }),
                CodebookSpec::HuffFloat(w) => ops.push(BitOp::BadSym { cb, sym: w.len() as u64 + rng.below(1000) }),
                CodebookSpec::HuffPow2(n) => ops.push(BitOp::BadSym { cb, sym: *n as u64 + rng.below(3) }),
                _ => {}
            }
        } else if r < 55 {
            if symbols_only || (!bits_only && rng.chance(1, 2)) {
                let cb = rng.usize(n_cb);
                if rng.chance(1, 6) {
                    let syms: Vec<u64> = (0..1 + rng.usize(5)).map(|_| gen_symbol(&mut rng, &codebooks[cb])).collect();
                    for _ in &syms { shadow.push(Item::Sym(cb)); }
                    ops.push(BitOp::EncBatch { cb, syms, reverse: rng.chance(1, 2) });
                } else {
                    shadow.push(Item::Sym(cb));
                    ops.push(BitOp::Enc { cb, sym: gen_symbol(&mut rng, &codebooks[cb]) });
                }
            } else {
                shadow.push(Item::Bit);
                ops.push(BitOp::Write(rng.chance(1, 2)));
            }
        } else if r < 90 {
            if queue { continue; }
            match shadow.pop() {
                Some(Item::Bit) => ops.push(BitOp::Read),
                Some(Item::Sym(cb)) => {
                    // a run of symbols of the same codebook on top: sometimes pop several at once
                    let mut run = 1;
                    while run < 6 && matches!(shadow.last(), Some(Item::Sym(c2)) if *c2 == cb) && rng.chance(2, 3) {
                        shadow.pop();
                        run += 1;
                    }
                    if run > 1 { ops.push(BitOp::DecBatch { cb, n: run }) } else { ops.push(BitOp::Dec { cb }) }
                }
                None => {
                    if rng.chance(1, 4) { ops.push(BitOp::Read); }
                }
            }
        } else {
            if queue { continue; }
            ops.push(BitOp::Reload);
        }
    }
    BitsTrace { word, queue, backend, prefix, codebooks, ops }
}
