//! Simulator-owned word store: implements the crate's public backend traits and decides
//! errors, capacity and end-of-data (DESIGN 2.4).  Stub component (listed as such in evidence).

use constriction::backends::{BoundedReadWords, ReadWords, WriteWords};
use constriction::{Pos, PosSeek, Queue, Seek, Stack};

#[derive(Clone, Debug, PartialEq, Eq)]
pub enum StoreErr {
    WriteFailed,
    ReadFailed,
    Full,
}

#[derive(Clone, Debug, Default)]
pub struct Store<W> {
    pub data: Vec<W>,
    /// queue-read cursor (stack reads pop from the end of `data`)
    pub qpos: usize,
    /// fail the n-th next write (0 = the very next one); transient unless `sticky`
    pub fail_write_in: Option<usize>,
    pub fail_read_in: Option<usize>,
    pub sticky: bool,
    pub capacity: Option<usize>,
    pub writes: u64,
    pub reads: u64,
    pub write_faults: u64,
    pub read_faults: u64,
}

impl<W> Store<W> {
    pub fn new(data: Vec<W>) -> Self {
        Store {
            data,
            qpos: 0,
            fail_write_in: None,
            fail_read_in: None,
            sticky: false,
            capacity: None,
            writes: 0,
            reads: 0,
            write_faults: 0,
            read_faults: 0,
        }
    }
    fn read_fault(&mut self) -> bool {
        match self.fail_read_in {
            Some(0) => {
                if !self.sticky {
                    self.fail_read_in = None;
                }
                self.read_faults += 1;
                true
            }
            Some(n) => {
                self.fail_read_in = Some(n - 1);
                false
            }
            None => false,
        }
    }
}

impl<W> WriteWords<W> for Store<W> {
    type WriteError = StoreErr;
    fn write(&mut self, word: W) -> Result<(), StoreErr> {
        match self.fail_write_in {
            Some(0) => {
                if !self.sticky {
                    self.fail_write_in = None;
                }
                self.write_faults += 1;
                return Err(StoreErr::WriteFailed);
            }
            Some(n) => self.fail_write_in = Some(n - 1),
            None => {}
        }
        if let Some(c) = self.capacity {
            if self.data.len() >= c {
                self.write_faults += 1;
                return Err(StoreErr::Full);
            }
        }
        self.writes += 1;
        self.data.push(word);
        Ok(())
    }
    fn maybe_full(&self) -> bool {
        self.capacity.map_or(false, |c| self.data.len() >= c)
    }
}

impl<W> ReadWords<W, Stack> for Store<W> {
    type ReadError = StoreErr;
    fn read(&mut self) -> Result<Option<W>, StoreErr> {
        if self.read_fault() {
            return Err(StoreErr::ReadFailed);
        }
        self.reads += 1;
        Ok(self.data.pop())
    }
    fn maybe_exhausted(&self) -> bool {
        self.data.is_empty()
    }
}
impl<W> BoundedReadWords<W, Stack> for Store<W> {
    fn remaining(&self) -> usize {
        self.data.len()
    }
}

/// queue-semantics view (separate newtype so that the two `ReadWords` impls never collide in
/// method resolution)
#[derive(Clone, Debug, Default)]
pub struct QStore<W>(pub Store<W>);

impl<W: Clone> ReadWords<W, Queue> for QStore<W> {
    type ReadError = StoreErr;
    fn read(&mut self) -> Result<Option<W>, StoreErr> {
        if self.0.read_fault() {
            return Err(StoreErr::ReadFailed);
        }
        self.0.reads += 1;
        let w = self.0.data.get(self.0.qpos).cloned();
        if w.is_some() {
            self.0.qpos += 1;
        }
        Ok(w)
    }
    fn maybe_exhausted(&self) -> bool {
        self.0.qpos >= self.0.data.len()
    }
}
impl<W: Clone> BoundedReadWords<W, Queue> for QStore<W> {
    fn remaining(&self) -> usize {
        self.0.data.len() - self.0.qpos
    }
}
impl<W> PosSeek for QStore<W> {
    type Position = usize;
}
impl<W> Pos for QStore<W> {
    fn pos(&self) -> usize {
        self.0.qpos
    }
}
impl<W> Seek for QStore<W> {
    fn seek(&mut self, pos: usize) -> Result<(), ()> {
        if pos > self.0.data.len() {
            Err(())
        } else {
            self.0.qpos = pos;
            Ok(())
        }
    }
}

impl<W> PosSeek for Store<W> {
    type Position = usize;
}
impl<W> Pos for Store<W> {
    fn pos(&self) -> usize {
        self.data.len()
    }
}
impl<W> Seek for Store<W> {
    fn seek(&mut self, pos: usize) -> Result<(), ()> {
        if pos <= self.data.len() {
            self.data.truncate(pos);
            Ok(())
        } else {
            Err(())
        }
    }
}
