//! Runtime (pb, p) -> compile-time `Dyn<Prob, P>` dispatch for the coders' generic
//! `Encode<P>` / `Decode<P>` methods.  Implemented per Word type so that the
//! `Probability: Into<Word>` bounds are concrete.

use constriction::stream::stack::AnsCoder;
use constriction::stream::{Decode, Encode};
use constriction::backends::WriteWords;
use constriction::BitArray;
use num_traits::AsPrimitive;

use crate::model::{Built, Dyn, FnModel, ModelBox};

#[derive(Clone, Debug, PartialEq, Eq)]
pub enum EncRes {
    Ok,
    /// Debug rendering of the frontend error (e.g. "ImpossibleSymbol")
    Frontend(String),
    /// Debug rendering of the backend error
    Backend(String),
    /// fallible-iterator form: the iterator's own error surfaced (payload = item index)
    IterErr(i64),
}

#[derive(Clone, Debug, PartialEq, Eq)]
pub enum DecRes {
    Ok(i64),
    Frontend(String),
    Backend(String),
    IterErr(i64),
}

impl EncRes {
    pub fn is_impossible(&self) -> bool {
        matches!(self, EncRes::Frontend(s) if s == "ImpossibleSymbol")
    }
}

#[derive(Clone, Copy, Debug, PartialEq, Eq, serde::Serialize, serde::Deserialize, Hash)]
pub enum EncForm {
    /// per-symbol loop (the reference form)
    Loop,
    Symbols,
    /// `try_encode_symbols` with an `Err` item at `fail_at` (or none)
    Try,
    /// `encode_iid_symbols` (all items must use the same model)
    Iid,
    /// the `_reverse` inherent forms of the ANS coder: items are passed reversed so that the
    /// net effect equals `Loop` over the given order
    SymbolsRev,
    TryRev,
    IidRev,
}

#[derive(Clone, Copy, Debug, PartialEq, Eq, serde::Serialize, serde::Deserialize, Hash)]
pub enum DecForm {
    Loop,
    Symbols,
    Try,
    Iid,
    /// `decode_iid_symbols(n, model)` consumed with `next()` for the first n-1 items and then
    /// `nth(k)` with k beyond the end: the last symbol is decoded and dropped by the adaptor
    /// (its value is unobservable: the result list ends with the marker `NTH_MARKER`)
    IidNth,
}

pub const NTH_MARKER: &str = "<consumed by nth>";

pub trait EncAll<W>:
    Encode<1, Word = W>
    + Encode<3, Word = W>
    + Encode<5, Word = W>
    + Encode<8, Word = W>
    + Encode<9, Word = W>
    + Encode<12, Word = W>
    + Encode<16, Word = W>
    + Encode<24, Word = W>
    + Encode<32, Word = W>
    + Encode<64, Word = W>
{
}
impl<W, T> EncAll<W> for T where
    T: Encode<1, Word = W>
        + Encode<3, Word = W>
        + Encode<5, Word = W>
        + Encode<8, Word = W>
        + Encode<9, Word = W>
        + Encode<12, Word = W>
        + Encode<16, Word = W>
        + Encode<24, Word = W>
        + Encode<32, Word = W>
        + Encode<64, Word = W>
{
}
pub trait DecAll<W>:
    Decode<1, Word = W>
    + Decode<3, Word = W>
    + Decode<5, Word = W>
    + Decode<8, Word = W>
    + Decode<9, Word = W>
    + Decode<12, Word = W>
    + Decode<16, Word = W>
    + Decode<24, Word = W>
    + Decode<32, Word = W>
    + Decode<64, Word = W>
{
}
impl<W, T> DecAll<W> for T where
    T: Decode<1, Word = W>
        + Decode<3, Word = W>
        + Decode<5, Word = W>
        + Decode<8, Word = W>
        + Decode<9, Word = W>
        + Decode<12, Word = W>
        + Decode<16, Word = W>
        + Decode<24, Word = W>
        + Decode<32, Word = W>
        + Decode<64, Word = W>
{
}

fn enc_res<F: core::fmt::Debug, B: core::fmt::Debug>(
    r: Result<(), constriction::CoderError<F, B>>,
) -> EncRes {
    match r {
        Ok(()) => EncRes::Ok,
        Err(constriction::CoderError::Frontend(f)) => EncRes::Frontend(format!("{:?}", f)),
        Err(constriction::CoderError::Backend(b)) => EncRes::Backend(format!("{:?}", b)),
    }
}
fn try_enc_res<F: core::fmt::Debug, B: core::fmt::Debug>(
    r: Result<(), constriction::stream::TryCodingError<constriction::CoderError<F, B>, i64>>,
) -> EncRes {
    use constriction::stream::TryCodingError as T;
    match r {
        Ok(()) => EncRes::Ok,
        Err(T::CodingError(e)) => enc_res::<F, B>(Err(e)),
        Err(T::InvalidEntropyModel(i)) => EncRes::IterErr(i),
    }
}
fn dec_res<F: core::fmt::Debug, B: core::fmt::Debug>(
    r: Result<i64, constriction::CoderError<F, B>>,
) -> DecRes {
    match r {
        Ok(s) => DecRes::Ok(s),
        Err(constriction::CoderError::Frontend(f)) => DecRes::Frontend(format!("{:?}", f)),
        Err(constriction::CoderError::Backend(b)) => DecRes::Backend(format!("{:?}", b)),
    }
}
fn try_dec_res<F: core::fmt::Debug, B: core::fmt::Debug>(
    r: Result<i64, constriction::stream::TryCodingError<constriction::CoderError<F, B>, i64>>,
) -> DecRes {
    use constriction::stream::TryCodingError as T;
    match r {
        Ok(s) => DecRes::Ok(s),
        Err(T::CodingError(e)) => dec_res::<F, B>(Err(e)),
        Err(T::InvalidEntropyModel(i)) => DecRes::IterErr(i),
    }
}

pub trait WordOps: BitArray {
    fn enc<C: EncAll<Self>>(c: &mut C, m: &Built, sym: i64) -> EncRes;
    fn dec<C: DecAll<Self>>(c: &mut C, m: &Built) -> DecRes;
    /// batch forms of the `Encode` trait (`Loop`, `Symbols`, `Try`, `Iid`); all items must share
    /// (pb, p); for `Iid` also the model.  `fail_at`: index of the `Err` item for `Try`.
    fn enc_batch<C: EncAll<Self>>(
        c: &mut C,
        form: EncForm,
        items: &[(i64, &Built)],
        fail_at: Option<usize>,
    ) -> EncRes;
    /// the ANS coder's inherent `_reverse` forms
    fn ans_enc_batch_rev<S, B>(
        c: &mut AnsCoder<Self, S, B>,
        form: EncForm,
        items: &[(i64, &Built)],
        fail_at: Option<usize>,
    ) -> EncRes
    where
        S: BitArray + AsPrimitive<Self>,
        Self: Into<S>,
        B: WriteWords<Self>;
    fn dec_batch<C: DecAll<Self>>(
        c: &mut C,
        form: DecForm,
        models: &[&Built],
        fail_at: Option<usize>,
    ) -> Vec<DecRes>;
    /// fixed-precision coders (chain coder)
    fn enc_p<C: Encode<P, Word = Self>, const P: usize>(c: &mut C, m: &Built, sym: i64) -> EncRes;
    fn dec_p<C: Decode<P, Word = Self>, const P: usize>(c: &mut C, m: &Built) -> DecRes;
}

// Because `macro_rules` cannot splice match arms from a nested invocation, the arms are
// generated by one flat macro per word level instead.
/// drain a batch-decode iterator, checking `size_hint()` / `len()` before the first and after
/// the first item; a wrong answer is appended to the results as a pseudo error (the worlds
/// compare batch results with the per-symbol loop, so it surfaces there)
macro_rules! checked_batch {
    ($it:expr, $n:expr, $conv:expr) => {{
        let mut it = $it;
        let n: usize = $n;
        let mut bad: Option<String> = None;
        if it.size_hint() != (n, Some(n)) || it.len() != n {
            bad = Some(format!("size_hint() = {:?}, len() = {} for a batch of {}", it.size_hint(), it.len(), n));
        }
        let mut v: Vec<DecRes> = Vec::new();
        if let Some(x) = it.next() {
            v.push($conv(x));
            if it.size_hint() != (n - 1, Some(n - 1)) {
                bad = Some(format!("size_hint() = {:?} after one of {} items", it.size_hint(), n));
            }
        }
        // (bounded drain: an iterator that never ends must not hang the harness)
        v.extend(it.by_ref().take(n + 2).map($conv));
        if v.len() > n {
            bad = Some(format!("the iterator yielded more than its {} items", n));
            v.truncate(n);
        }
        // an exhausted iterator stays exhausted and decodes nothing more
        if it.next().is_some() || it.nth(1).is_some() {
            bad = Some(format!("the iterator yielded an item after it had reported its end ({} items)", n));
        }
        if let Some(b) = bad {
            v.push(DecRes::Frontend(b));
        }
        v
    }};
}

macro_rules! word_ops {
    ($W:ident; $( ($V:ident, $Prob:ty, $P:literal) ),* $(,)?) => {
        impl WordOps for $W {
            fn enc<C: EncAll<Self>>(c: &mut C, m: &Built, sym: i64) -> EncRes {
                match (&m.mb, m.p) {
                    $( (ModelBox::$V(fm), $P) => enc_res(<C as Encode<$P>>::encode_symbol(c, sym, Dyn::<$Prob, $P>(fm))), )*
                    _ => panic!("harness: model (pb={}, p={}) not usable with this word type", m.pb, m.p),
                }
            }
            fn dec<C: DecAll<Self>>(c: &mut C, m: &Built) -> DecRes {
                match (&m.mb, m.p) {
                    $( (ModelBox::$V(fm), $P) => dec_res(<C as Decode<$P>>::decode_symbol(c, Dyn::<$Prob, $P>(fm))), )*
                    _ => panic!("harness: model (pb={}, p={}) not usable with this word type", m.pb, m.p),
                }
            }
            fn enc_batch<C: EncAll<Self>>(
                c: &mut C,
                form: EncForm,
                items: &[(i64, &Built)],
                fail_at: Option<usize>,
            ) -> EncRes {
                if items.is_empty() && form != EncForm::Try {
                    return EncRes::Ok;
                }
                if form == EncForm::Loop {
                    for (s, m) in items {
                        let r = Self::enc(c, m, *s);
                        if r != EncRes::Ok {
                            return r;
                        }
                    }
                    return EncRes::Ok;
                }
                let (pb, p) = items.first().map(|(_, m)| (m.pb, m.p)).unwrap_or((8, 8));
                assert!(items.iter().all(|(_, m)| m.pb == pb && m.p == p), "harness: mixed batch");
                match (pb, p) {
                    $( (<$Prob>::BITS_U8, $P) => {
                        let get = getd::<$Prob, $P>;
                        match form {
                            EncForm::Symbols => enc_res(<C as Encode<$P>>::encode_symbols(
                                c, items.iter().map(|(s, m)| (*s, get(m))))),
                            EncForm::Iid => enc_res(<C as Encode<$P>>::encode_iid_symbols(
                                c, items.iter().map(|(s, _)| *s), get(&items[0].1))),
                            EncForm::Try => {
                                let n = items.len();
                                let mut v: Vec<Result<(i64, Dyn<$Prob, $P>), i64>> = Vec::new();
                                for i in 0..=n {
                                    if Some(i) == fail_at { v.push(Err(i as i64)); }
                                    if i < n { v.push(Ok((items[i].0, get(&items[i].1)))); }
                                }
                                try_enc_res(<C as Encode<$P>>::try_encode_symbols(c, v))
                            }
                            _ => panic!("harness: form not handled here"),
                        }
                    } )*
                    _ => panic!("harness: (pb={}, p={}) not usable with this word type", pb, p),
                }
            }
            fn ans_enc_batch_rev<S, B>(
                c: &mut AnsCoder<Self, S, B>,
                form: EncForm,
                items: &[(i64, &Built)],
                fail_at: Option<usize>,
            ) -> EncRes
            where
                S: BitArray + AsPrimitive<Self>,
                Self: Into<S>,
                B: WriteWords<Self>,
            {
                // The `_reverse` methods encode the *last* item first.  We hand them the items in
                // reversed order so that the net effect is "encode items[0], then items[1], ...".
                if items.is_empty() && form != EncForm::TryRev {
                    return EncRes::Ok;
                }
                let (pb, p) = items.first().map(|(_, m)| (m.pb, m.p)).unwrap_or((8, 8));
                assert!(items.iter().all(|(_, m)| m.pb == pb && m.p == p), "harness: mixed batch");
                match (pb, p) {
                    $( (<$Prob>::BITS_U8, $P) => {
                        let get = getd::<$Prob, $P>;
                        match form {
                            EncForm::SymbolsRev => {
                                let v: Vec<(i64, Dyn<$Prob, $P>)> = items.iter().rev().map(|(s, m)| (*s, get(m))).collect();
                                enc_res(c.encode_symbols_reverse::<_, _, _, $P>(v))
                            }
                            EncForm::IidRev => {
                                let v: Vec<i64> = items.iter().rev().map(|(s, _)| *s).collect();
                                enc_res(c.encode_iid_symbols_reverse::<_, _, _, $P>(v, get(&items[0].1)))
                            }
                            EncForm::TryRev => {
                                // logical order: items[0..], with an Err in front of logical index fail_at
                                let n = items.len();
                                let mut v: Vec<Result<(i64, Dyn<$Prob, $P>), i64>> = Vec::new();
                                for i in 0..=n {
                                    if Some(i) == fail_at { v.push(Err(i as i64)); }
                                    if i < n { v.push(Ok((items[i].0, get(&items[i].1)))); }
                                }
                                v.reverse();
                                try_enc_res(c.try_encode_symbols_reverse::<_, _, _, _, $P>(v))
                            }
                            _ => panic!("harness: form not handled here"),
                        }
                    } )*
                    _ => panic!("harness: (pb={}, p={}) not usable with this word type", pb, p),
                }
            }
            fn dec_batch<C: DecAll<Self>>(
                c: &mut C,
                form: DecForm,
                models: &[&Built],
                fail_at: Option<usize>,
            ) -> Vec<DecRes> {
                if models.is_empty() && form != DecForm::Try {
                    return Vec::new();
                }
                if form == DecForm::Loop {
                    return models.iter().map(|m| Self::dec(c, m)).collect();
                }
                let (pb, p) = models.first().map(|m| (m.pb, m.p)).unwrap_or((8, 8));
                assert!(models.iter().all(|m| m.pb == pb && m.p == p), "harness: mixed batch");
                match (pb, p) {
                    $( (<$Prob>::BITS_U8, $P) => {
                        let get = getd::<$Prob, $P>;
                        match form {
                            DecForm::Symbols => {
                                // documented: lazy (nothing is decoded until the iterator is advanced) ...
                                drop(<C as Decode<$P>>::decode_symbols(c, models.iter().map(get)));
                                let it = <C as Decode<$P>>::decode_symbols(c, models.iter().map(get));
                                // ... and exact-size if the models are
                                checked_batch!(it, models.len(), dec_res)
                            }
                            DecForm::Iid => {
                                drop(<C as Decode<$P>>::decode_iid_symbols(c, models.len(), get(&models[0])));
                                let it = <C as Decode<$P>>::decode_iid_symbols(c, models.len(), get(&models[0]));
                                checked_batch!(it, models.len(), dec_res)
                            }
                            DecForm::IidNth => {
                                let n = models.len();
                                let mut it = <C as Decode<$P>>::decode_iid_symbols(c, n, get(&models[0]));
                                let mut v: Vec<DecRes> = Vec::new();
                                for _ in 0..n.saturating_sub(1) {
                                    match it.next() { Some(x) => v.push(dec_res(x)), None => break }
                                }
                                // beyond the end: the adaptor must still decode (and drop) what is left
                                if it.nth(n + 2).is_some() {
                                    v.push(DecRes::Frontend("nth() beyond the end returned an item".into()));
                                }
                                v.push(DecRes::Frontend(NTH_MARKER.into()));
                                v
                            }
                            DecForm::Try => {
                                let n = models.len();
                                let mut v: Vec<Result<Dyn<$Prob, $P>, i64>> = Vec::new();
                                for i in 0..=n {
                                    if Some(i) == fail_at { v.push(Err(i as i64)); }
                                    if i < n { v.push(Ok(get(&models[i]))); }
                                }
                                let n_items = v.len();
                                let it = <C as Decode<$P>>::try_decode_symbols(c, v);
                                checked_batch!(it, n_items, try_dec_res)
                            }
                            DecForm::Loop => unreachable!(),
                        }
                    } )*
                    _ => panic!("harness: (pb={}, p={}) not usable with this word type", pb, p),
                }
            }
            fn enc_p<C: Encode<P, Word = Self>, const P: usize>(c: &mut C, m: &Built, sym: i64) -> EncRes {
                assert_eq!(m.p as usize, P, "harness: precision mismatch");
                word_ops!(@enc_p $W, c, m, sym, P)
            }
            fn dec_p<C: Decode<P, Word = Self>, const P: usize>(c: &mut C, m: &Built) -> DecRes {
                assert_eq!(m.p as usize, P, "harness: precision mismatch");
                word_ops!(@dec_p $W, c, m, P)
            }
        }
    };
    (@enc_p u8, $c:ident, $m:ident, $sym:ident, $P:ident) => {
        match &$m.mb {
            ModelBox::U8(fm) => enc_res($c.encode_symbol($sym, Dyn::<u8, $P>(fm))),
            _ => panic!("harness: prob type too wide"),
        }
    };
    (@enc_p u16, $c:ident, $m:ident, $sym:ident, $P:ident) => {
        match &$m.mb {
            ModelBox::U8(fm) => enc_res($c.encode_symbol($sym, Dyn::<u8, $P>(fm))),
            ModelBox::U16(fm) => enc_res($c.encode_symbol($sym, Dyn::<u16, $P>(fm))),
            _ => panic!("harness: prob type too wide"),
        }
    };
    (@enc_p u32, $c:ident, $m:ident, $sym:ident, $P:ident) => {
        match &$m.mb {
            ModelBox::U8(fm) => enc_res($c.encode_symbol($sym, Dyn::<u8, $P>(fm))),
            ModelBox::U16(fm) => enc_res($c.encode_symbol($sym, Dyn::<u16, $P>(fm))),
            ModelBox::U32(fm) => enc_res($c.encode_symbol($sym, Dyn::<u32, $P>(fm))),
            _ => panic!("harness: prob type too wide"),
        }
    };
    (@enc_p u64, $c:ident, $m:ident, $sym:ident, $P:ident) => {
        match &$m.mb {
            ModelBox::U8(fm) => enc_res($c.encode_symbol($sym, Dyn::<u8, $P>(fm))),
            ModelBox::U16(fm) => enc_res($c.encode_symbol($sym, Dyn::<u16, $P>(fm))),
            ModelBox::U32(fm) => enc_res($c.encode_symbol($sym, Dyn::<u32, $P>(fm))),
            ModelBox::U64(fm) => enc_res($c.encode_symbol($sym, Dyn::<u64, $P>(fm))),
        }
    };
    (@dec_p u8, $c:ident, $m:ident, $P:ident) => {
        match &$m.mb {
            ModelBox::U8(fm) => dec_res($c.decode_symbol(Dyn::<u8, $P>(fm))),
            _ => panic!("harness: prob type too wide"),
        }
    };
    (@dec_p u16, $c:ident, $m:ident, $P:ident) => {
        match &$m.mb {
            ModelBox::U8(fm) => dec_res($c.decode_symbol(Dyn::<u8, $P>(fm))),
            ModelBox::U16(fm) => dec_res($c.decode_symbol(Dyn::<u16, $P>(fm))),
            _ => panic!("harness: prob type too wide"),
        }
    };
    (@dec_p u32, $c:ident, $m:ident, $P:ident) => {
        match &$m.mb {
            ModelBox::U8(fm) => dec_res($c.decode_symbol(Dyn::<u8, $P>(fm))),
            ModelBox::U16(fm) => dec_res($c.decode_symbol(Dyn::<u16, $P>(fm))),
            ModelBox::U32(fm) => dec_res($c.decode_symbol(Dyn::<u32, $P>(fm))),
            _ => panic!("harness: prob type too wide"),
        }
    };
    (@dec_p u64, $c:ident, $m:ident, $P:ident) => {
        match &$m.mb {
            ModelBox::U8(fm) => dec_res($c.decode_symbol(Dyn::<u8, $P>(fm))),
            ModelBox::U16(fm) => dec_res($c.decode_symbol(Dyn::<u16, $P>(fm))),
            ModelBox::U32(fm) => dec_res($c.decode_symbol(Dyn::<u32, $P>(fm))),
            ModelBox::U64(fm) => dec_res($c.decode_symbol(Dyn::<u64, $P>(fm))),
        }
    };
}

pub trait Pick: BitArray {
    fn pick(mb: &ModelBox) -> &FnModel<Self>;
}
macro_rules! pick { ($T:ty, $V:ident) => {
    impl Pick for $T { fn pick(mb: &ModelBox) -> &FnModel<Self> { match mb { ModelBox::$V(fm) => fm, _ => unreachable!("harness: prob type mismatch") } } }
}}
pick!(u8, U8);
pick!(u16, U16);
pick!(u32, U32);
pick!(u64, U64);
fn getd<'a, Prob: Pick, const P: usize>(m: &&'a Built) -> Dyn<'a, Prob, P> {
    Dyn(Prob::pick(&m.mb))
}

trait BitsU8 {
    const BITS_U8: u8;
}
impl BitsU8 for u8 {
    const BITS_U8: u8 = 8;
}
impl BitsU8 for u16 {
    const BITS_U8: u8 = 16;
}
impl BitsU8 for u32 {
    const BITS_U8: u8 = 32;
}
impl BitsU8 for u64 {
    const BITS_U8: u8 = 64;
}

word_ops!(u8; (U8, u8, 1), (U8, u8, 3), (U8, u8, 5), (U8, u8, 8));
word_ops!(u16; (U8, u8, 1), (U8, u8, 3), (U8, u8, 5), (U8, u8, 8),
    (U16, u16, 1), (U16, u16, 9), (U16, u16, 12), (U16, u16, 16));
word_ops!(u32; (U8, u8, 1), (U8, u8, 3), (U8, u8, 5), (U8, u8, 8),
    (U16, u16, 1), (U16, u16, 9), (U16, u16, 12), (U16, u16, 16),
    (U32, u32, 1), (U32, u32, 12), (U32, u32, 24), (U32, u32, 32));
word_ops!(u64; (U8, u8, 1), (U8, u8, 3), (U8, u8, 5), (U8, u8, 8),
    (U16, u16, 1), (U16, u16, 9), (U16, u16, 12), (U16, u16, 16),
    (U32, u32, 1), (U32, u32, 12), (U32, u32, 24), (U32, u32, 32),
    (U64, u64, 24), (U64, u64, 64));

/// which (pb, p) combinations a coder with `word_bits`-bit words can use
pub fn menu_for_word(word_bits: u32) -> Vec<(u8, u8)> {
    crate::model::MENU.iter().cloned().filter(|(pb, _)| (*pb as u32) <= word_bits).collect()
}
