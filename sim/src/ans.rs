//! World `ans`: one `AnsCoder` object driven through a seeded history of producer / consumer /
//! re-loader / inspector / seeker operations (DESIGN 3: C01 C04 C06 C07 C08 C09 C12 C18).

use constriction::backends::{Cursor, ReadWords, WriteWords};
use constriction::stream::stack::AnsCoder;
use constriction::stream::Code;
use constriction::{Pos, Seek, UnwrapInfallible};
use serde::{Deserialize, Serialize};
use smallvec::SmallVec;

use crate::common::*;
use crate::dynops::{menu_for_word, DecForm, DecRes, EncForm, EncRes, WordOps};
use crate::model::{build_caught, gen_spec, Built, ModelSpec, Repr};
use crate::refs::RefAns;
use crate::rng::Rng;
use crate::store::Store;

#[derive(Clone, Debug, Serialize, Deserialize, PartialEq)]
pub enum Backend {
    Vec,
    Small,
    /// bounded in-memory cursor over a Vec of this capacity
    Cursor { cap: usize },
    /// simulator store (fault plan armed by `Fault` ops)
    Store,
    /// `Reverse<Cursor<_, Vec<_>>>`: the stack grows towards the front of a buffer of this capacity
    RevCursor { cap: usize },
}

#[derive(Clone, Debug, Serialize, Deserialize, PartialEq)]
pub enum Init {
    Empty,
    /// `from_compressed` (last word must be non-zero, else the op list runs on an empty coder)
    Compressed(Vec<u64>),
    /// `from_binary`
    Binary(Vec<u64>),
}

#[derive(Clone, Copy, Debug, Serialize, Deserialize, PartialEq, Eq, Hash)]
pub enum View {
    GetCompressed,
    GetBinary,
    IterCompressed,
    AsDecoder,
    IntoDecoderClone,
    Slice,
    Reversed,
    RevIter,
    Queries,
    CloneDrop,
    /// foreign decoders over the raw-binary payload (`from_binary_slice`,
    /// `from_reversed_binary`, `from_reversed_binary_iter`), when the payload is whole words
    BinaryDecoders,
}

#[derive(Clone, Copy, Debug, Serialize, Deserialize, PartialEq, Eq, Hash)]
pub enum SeekVia {
    AsSeekable,
    IntoSeekable,
    ConsumingVec,
    Reversed,
}

#[derive(Clone, Debug, Serialize, Deserialize, PartialEq)]
pub enum FaultOp {
    /// the k-th next backend write fails once (Store backend)
    WriteIn(usize),
    /// limit capacity to current length + c words (Store backend)
    Room(usize),
    Clear,
}

#[derive(Clone, Debug, Serialize, Deserialize, PartialEq)]
pub enum AnsOp {
    Enc { sym: i64, m: usize },
    /// encode the `idx`-th symbol that this run has decoded so far (bits-back: the generator
    /// need not know the decoded symbols)
    EncBack { idx: usize, m: usize },
    EncBatch { form: EncForm, items: Vec<(i64, usize)>, fail_at: Option<usize> },
    Dec { m: usize },
    DecBatch { form: DecForm, ms: Vec<usize>, fail_at: Option<usize> },
    /// export and re-import (`binary`: via into_binary/from_binary when the payload allows)
    Reload { binary: bool },
    CloneSwap,
    Inspect { view: View, n: usize },
    Snapshot,
    Seek { via: SeekVia, snap: usize, n: usize },
    /// seek to a position beyond the data (must be refused)
    SeekBeyond { via: SeekVia, extra: usize },
    BadSym { m: usize, sym: i64 },
    Fault(FaultOp),
    /// `clear()` (Vec backend): restart from an empty coder
    ClearCoder,
}

#[derive(Clone, Debug, Serialize, Deserialize, PartialEq)]
pub struct AnsTrace {
    pub cfg: usize,
    pub backend: Backend,
    pub init: Init,
    pub models: Vec<ModelSpec>,
    pub ops: Vec<AnsOp>,
    /// published vector: the final export must equal these words (C06)
    #[serde(default)]
    pub expect: Option<Vec<u64>>,
    /// published vector: the decoded symbols must equal these (C06)
    #[serde(default)]
    pub expect_decoded: Option<Vec<i64>>,
    /// representation in which model i is handed to the coder (missing = the plain owner)
    #[serde(default)]
    pub reprs: Vec<Repr>,
}

// ---------------------------------------------------------------------------------------

enum Coder<C: Ws> {
    V(AnsCoder<C::W, C::S, Vec<C::W>>),
    Sm(AnsCoder<C::W, C::S, SmallVec<[C::W; 4]>>),
    Cur(AnsCoder<C::W, C::S, Cursor<C::W, Vec<C::W>>>),
    St(AnsCoder<C::W, C::S, Store<C::W>>),
    Rev(AnsCoder<C::W, C::S, constriction::backends::Reverse<Cursor<C::W, Vec<C::W>>>>),
}

macro_rules! on_coder {
    ($c:expr, $x:ident => $e:expr) => {
        match $c {
            Coder::V($x) => $e,
            Coder::Sm($x) => $e,
            Coder::Cur($x) => $e,
            Coder::St($x) => $e,
            Coder::Rev($x) => $e,
        }
    };
}

fn rev_cursor<W: Clone + Default>(words_top_last: &[W], cap: usize) -> constriction::backends::Reverse<Cursor<W, Vec<W>>> {
    // the top of the stack sits at the lowest used index; free space is in front of it
    let len = words_top_last.len();
    let cap = cap.max(len);
    let mut buf = vec![W::default(); cap - len];
    buf.extend(words_top_last.iter().rev().cloned());
    constriction::backends::Reverse(Cursor::new_at_pos(buf, cap - len).expect("in range"))
}

impl<C: Ws> Coder<C> {
    fn clone_(&self) -> Self {
        match self {
            Coder::V(c) => Coder::V(c.clone()),
            Coder::Sm(c) => Coder::Sm(c.clone()),
            Coder::Cur(c) => Coder::Cur(c.clone()),
            Coder::St(c) => Coder::St(c.clone()),
            Coder::Rev(c) => {
                // Reverse<_> is not Clone: rebuild through the public raw parts
                let b = &c.bulk().0;
                Coder::Rev(AnsCoder::from_raw_parts(constriction::backends::Reverse(b.clone()), c.state()))
            }
        }
    }
    /// `Clone::clone_from` when both sides have the same backend type, else a plain clone
    fn clone_from_(&mut self, source: &Self) {
        match (&mut *self, source) {
            (Coder::V(a), Coder::V(b)) => a.clone_from(b),
            (Coder::Sm(a), Coder::Sm(b)) => a.clone_from(b),
            (Coder::Cur(a), Coder::Cur(b)) => a.clone_from(b),
            (Coder::St(a), Coder::St(b)) => a.clone_from(b),
            _ => *self = source.clone_(),
        }
    }
    fn state(&self) -> u128 {
        on_coder!(self, c => s_to(c.state()))
    }
    /// number of words on the bulk (cheap: no copy)
    fn bulk_len(&self) -> usize {
        match self {
            Coder::V(c) => c.bulk().len(),
            Coder::Sm(c) => c.bulk().len(),
            Coder::Cur(c) => c.bulk().pos(),
            Coder::St(c) => c.bulk().data.len(),
            Coder::Rev(c) => {
                let b = &c.bulk().0;
                b.buf().len() - b.pos()
            }
        }
    }
    fn bulk_words(&self) -> Vec<u64> {
        match self {
            Coder::V(c) => c.bulk().iter().map(|&w| w_to(w)).collect(),
            Coder::Sm(c) => c.bulk().iter().map(|&w| w_to(w)).collect(),
            Coder::Cur(c) => {
                let b = c.bulk();
                b.buf()[..b.pos()].iter().map(|&w| w_to(w)).collect()
            }
            Coder::St(c) => c.bulk().data.iter().map(|&w| w_to(w)).collect(),
            Coder::Rev(c) => {
                let b = &c.bulk().0;
                b.buf()[b.pos()..].iter().rev().map(|&w| w_to(w)).collect()
            }
        }
    }
    /// `clone().into_compressed()` (None if a bounded backend has no room for the head)
    fn export(&self) -> Option<Vec<u64>> {
        match self {
            // `into_compressed()` and `Vec::from(coder)` are two public routes to the same words;
            // the choice is a function of the coder's state (replay stays a pure function of the trace)
            Coder::V(c) => {
                let words: Vec<C::W> = if c.bulk().len().wrapping_add(s_to(c.state()) as usize) & 1 == 1 { c.clone().into() } else { c.clone().into_compressed().unwrap_infallible() };
                Some(words.iter().map(|&w| w_to(w)).collect())
            }
            Coder::Sm(c) => Some(c.clone().into_compressed().unwrap_infallible().iter().map(|&w| w_to(w)).collect()),
            Coder::Cur(c) => c.clone().into_compressed().ok().map(|b| {
                let (buf, pos) = b.into_buf_and_pos();
                buf[..pos].iter().map(|&w| w_to(w)).collect()
            }),
            Coder::Rev(_) => match self.clone_() {
                Coder::Rev(c) => c.into_compressed().ok().map(|b| {
                    let (buf, pos) = b.0.into_buf_and_pos();
                    buf[pos..].iter().rev().map(|&w| w_to(w)).collect()
                }),
                _ => unreachable!(),
            },
            Coder::St(c) => {
                let mut c = c.clone();
                // exporting must not be disturbed by an armed fault plan: that is a harness
                // observation, not an operation of the simulated roles
                let (mut bulk, state) = c.clone().into_raw_parts();
                bulk.fail_write_in = None;
                bulk.capacity = None;
                c = AnsCoder::from_raw_parts(bulk, state);
                c.into_compressed().ok().map(|b| b.data.iter().map(|&w| w_to(w)).collect())
            }
        }
    }
    /// `clone().into_binary()`: None = not available for this backend in the harness;
    /// Some(None) = refused (payload is not whole words) or no room; Some(Some(words)) = payload
    fn binary(&self) -> Option<Option<Vec<u64>>> {
        Some(match self {
            Coder::V(c) => c.clone().into_binary().ok().map(|v| v.iter().map(|&w| w_to(w)).collect()),
            Coder::Sm(c) => c.clone().into_binary().ok().map(|v| v.iter().map(|&w| w_to(w)).collect()),
            Coder::Cur(c) => c.clone().into_binary().ok().map(|b| {
                let (buf, pos) = b.into_buf_and_pos();
                buf[..pos].iter().map(|&w| w_to(w)).collect()
            }),
            Coder::Rev(_) => match self.clone_() {
                Coder::Rev(c) => c.into_binary().ok().map(|b| {
                    let (buf, pos) = b.0.into_buf_and_pos();
                    buf[pos..].iter().rev().map(|&w| w_to(w)).collect()
                }),
                _ => unreachable!(),
            },
            Coder::St(_) => return None,
        })
    }
    fn from_words(kind: &Backend, words: &[u64]) -> Option<Self> {
        let ws: Vec<C::W> = words.iter().map(|&w| w_from(w)).collect();
        Some(match kind {
            Backend::Vec => Coder::V(AnsCoder::from_compressed(ws).ok()?),
            Backend::Small => Coder::Sm(AnsCoder::from_compressed(SmallVec::from_vec(ws)).ok()?),
            Backend::Cursor { cap } => {
                let mut buf = ws.clone();
                let len = buf.len();
                buf.resize((*cap).max(len), C::W::default());
                Coder::Cur(AnsCoder::from_compressed(Cursor::new_at_pos(buf, len).ok()?).ok()?)
            }
            Backend::Store => Coder::St(AnsCoder::from_compressed(Store::new(ws)).ok()?),
            Backend::RevCursor { cap } => Coder::Rev(AnsCoder::from_compressed(rev_cursor(&ws, *cap)).ok()?),
        })
    }
    fn from_binary(kind: &Backend, words: &[u64]) -> Option<Self> {
        let ws: Vec<C::W> = words.iter().map(|&w| w_from(w)).collect();
        Some(match kind {
            Backend::Vec => Coder::V(AnsCoder::from_binary(ws).unwrap_infallible()),
            Backend::Small => Coder::Sm(AnsCoder::from_binary(SmallVec::from_vec(ws)).unwrap_infallible()),
            Backend::Cursor { cap } => {
                let mut buf = ws.clone();
                let len = buf.len();
                buf.resize((*cap).max(len), C::W::default());
                Coder::Cur(AnsCoder::from_binary(Cursor::new_at_pos(buf, len).ok()?).unwrap_infallible())
            }
            Backend::Store => Coder::St(AnsCoder::from_binary(Store::new(ws)).ok()?),
            Backend::RevCursor { cap } => Coder::Rev(AnsCoder::from_binary(rev_cursor(&ws, *cap)).unwrap_infallible()),
        })
    }
    fn enc(&mut self, m: &Built, sym: i64) -> EncRes {
        on_coder!(self, c => <C::W as WordOps>::enc(c, m, sym))
    }
    fn dec(&mut self, m: &Built) -> DecRes {
        on_coder!(self, c => <C::W as WordOps>::dec(c, m))
    }
    fn enc_batch(&mut self, form: EncForm, items: &[(i64, &Built)], fail_at: Option<usize>) -> EncRes {
        match form {
            EncForm::SymbolsRev | EncForm::TryRev | EncForm::IidRev => {
                on_coder!(self, c => <C::W as WordOps>::ans_enc_batch_rev(c, form, items, fail_at))
            }
            _ => on_coder!(self, c => <C::W as WordOps>::enc_batch(c, form, items, fail_at)),
        }
    }
    fn dec_batch(&mut self, form: DecForm, ms: &[&Built], fail_at: Option<usize>) -> Vec<DecRes> {
        on_coder!(self, c => <C::W as WordOps>::dec_batch(c, form, ms, fail_at))
    }
    fn is_empty(&self) -> bool {
        on_coder!(self, c => c.is_empty())
    }
    fn num_words(&self) -> usize {
        on_coder!(self, c => c.num_words())
    }
    fn num_bits(&self) -> usize {
        on_coder!(self, c => c.num_bits())
    }
    fn num_valid_bits(&self) -> usize {
        on_coder!(self, c => c.num_valid_bits())
    }
    fn maybe_exhausted(&self) -> bool {
        on_coder!(self, c => constriction::stream::Decode::<8>::maybe_exhausted(c))
    }
    fn pos(&self) -> (usize, u128) {
        let (p, s) = on_coder!(self, c => c.pos());
        (p, s_to(s))
    }
}

#[derive(Clone)]
struct Entry {
    sym: i64,
    m: usize,
    serial: u64,
    /// hash + length of the coder's export right before this symbol was pushed
    before: (usize, u64),
}

#[derive(Clone)]
struct Snap {
    pos: usize,
    state: u128,
    depth: usize,
    /// serial of the entry on top of the stack when the snapshot was taken (0 = none)
    top_serial: u64,
    /// unique id of the "epoch" (changes whenever the stack below could have been disturbed)
    epoch: u64,
}

#[derive(Clone, Debug, Default, PartialEq)]
pub struct RunLog {
    pub decoded: Vec<i64>,
    pub final_words: Option<Vec<u64>>,
    pub completed: bool,
}

struct World<'t, C: Ws> {
    t: &'t AnsTrace,
    built: &'t [Option<Built>],
    coder: Coder<C>,
    r: RefAns,
    /// false once the reference cannot be trusted any more (after an injected read error)
    r_valid: bool,
    stack: Vec<Entry>,
    serial: u64,
    epoch: u64,
    snaps: Vec<Snap>,
    log: RunLog,
    // C12 bookkeeping: Some while the history is "encode-only from empty"
    info_bits: Option<f64>,
    eps_bits: f64,
    n_enc: usize,
    reached_full: bool,
    n_popped: usize,
    // C04 bookkeeping: original binary words while the history is decode^k encode^k
    skip_inspect: bool,
    /// true once a decode consumed data in a way the LIFO bookkeeping cannot follow
    garbled: bool,
    /// true once `clear()` was called
    cleared: bool,
    /// an older copy of the coder, kept as the target of a later `clone_from`
    stale: Option<Coder<C>>,
}

macro_rules! viol {
    ($ctx:expr, $prop:expr, $tag:expr, $($fmt:tt)*) => {
        return Err(Violation::new($prop, $tag, $ctx.op, format!($($fmt)*)))
    };
}

pub fn exec(t: &AnsTrace, ctx: &mut Ctx, skip_inspect: bool) -> Result<RunLog, Violation> {
    crate::for_cfg!(t.cfg, |C| exec_cfg::<C>(t, ctx, skip_inspect))
}

fn exec_cfg<C: Ws>(t: &AnsTrace, ctx: &mut Ctx, skip_inspect: bool) -> Result<RunLog, Violation> {
    let built: Vec<Option<Built>> = t
        .models
        .iter()
        .enumerate()
        .map(|(i, s)| if (s.pb as u32) <= C::WB { build_caught(s, t.reprs.get(i).cloned().unwrap_or(Repr::Plain)) } else { None })
        .collect();
    let (coder, r) = match &t.init {
        Init::Empty => (Coder::<C>::from_words(&t.backend, &[]), RefAns::empty(C::WB, C::SB)),
        Init::Compressed(ws) => {
            let ws: Vec<u64> = ws.iter().map(|&w| w_to(w_from::<C::W>(w))).collect();
            match RefAns::from_words(C::WB, C::SB, &ws) {
                Some(r) => (Coder::<C>::from_words(&t.backend, &ws), r),
                None => {
                    // trailing zero word: from_compressed must refuse (C01 oracle 5 is about
                    // exports; here we only make sure the run does not proceed on garbage)
                    let c = Coder::<C>::from_words(&t.backend, &ws);
                    if c.is_some() && ctx.on("C01") {
                        viol!(ctx, "C01", "from-compressed-accepts-trailing-zero", "words={:x?}", ws);
                    }
                    return Ok(RunLog::default());
                }
            }
        }
        Init::Binary(ws) => {
            let ws: Vec<u64> = ws.iter().map(|&w| w_to(w_from::<C::W>(w))).collect();
            (Coder::<C>::from_binary(&t.backend, &ws), RefAns::from_binary(C::WB, C::SB, &ws))
        }
    };
    let coder = match coder {
        Some(c) => c,
        None => {
            if ctx.any(&["C01", "C04"]) {
                viol!(ctx, ctx.prop, "import-refused", "init={:?}", t.init);
            }
            return Ok(RunLog::default());
        }
    };
    let from_empty = matches!(t.init, Init::Empty);
    let mut w = World::<C> {
        t,
        built: &built,
        coder,
        r,
        r_valid: true,
        stack: Vec::new(),
        serial: 0,
        epoch: 1,
        snaps: Vec::new(),
        log: RunLog::default(),
        info_bits: if from_empty { Some(0.0) } else { None },
        eps_bits: 0.0,
        n_enc: 0,
        reached_full: false,
        n_popped: 0,
        skip_inspect,
        garbled: false,
        cleared: false,
        stale: None,
    };
    w.after_op(ctx)?;
    if let Init::Binary(ws) = &t.init {
        if ctx.any(&["C04", "C18"]) {
            let nvb = w.coder.num_valid_bits();
            if nvb != ws.len() * C::WB as usize {
                viol!(ctx, ctx.prop, "num-valid-bits-after-from-binary", "len={} words, num_valid_bits={}", ws.len(), nvb);
            }
        }
    }
    for (i, op) in t.ops.iter().enumerate() {
        ctx.op = i;
        w.step(op, ctx)?;
        w.after_op(ctx)?;
    }
    ctx.op = t.ops.len();
    w.finish(ctx)?;
    w.log.completed = true;
    Ok(w.log)
}

impl<'t, C: Ws> World<'t, C> {
    fn model(&self, m: usize) -> Option<&'t Built> {
        let b: &'t [Option<Built>] = self.built;
        b.get(m).and_then(|b| b.as_ref())
    }

    fn bump_epoch(&mut self) {
        self.garbled = true;
        self.epoch += 1;
        self.stack.clear();
    }

    /// abstract state for the reach measure
    fn abstract_state(&self, last: u64) -> u64 {
        let x = self.coder.state();
        let bits = 128 - x.leading_zeros() as u64;
        let bulk_empty = (self.coder.bulk_len() == 0) as u64;
        hash_mix(hash_mix(bits, bulk_empty), hash_mix(last, self.t.cfg as u64 * 16 + self.stack.len().min(8) as u64))
    }

    fn after_op(&mut self, ctx: &mut Ctx) -> Result<(), Violation> {
        let last = match ctx.op.checked_sub(0).and_then(|i| self.t.ops.get(i)) {
            Some(AnsOp::Enc { .. }) | Some(AnsOp::EncBack { .. }) => 1,
            Some(AnsOp::Dec { .. }) => 2,
            Some(AnsOp::EncBatch { .. }) => 3,
            Some(AnsOp::DecBatch { .. }) => 4,
            Some(AnsOp::Reload { .. }) => 5,
            Some(AnsOp::Inspect { .. }) => 6,
            Some(_) => 7,
            None => 0,
        };
        let h = self.abstract_state(last);
        ctx.stats.state(h);
        let x = self.coder.state();
        let bulk_len = self.coder.bulk_len();
        // very long messages: the O(n) observations below run at every 37th operation only
        if bulk_len > 4000 && ctx.op % 37 != 0 {
            if ctx.on("C12") {
                self.check_c12(ctx, false)?;
            }
            return Ok(());
        }
        // C01 oracle 4: the documented state invariant, through the public accessors
        if ctx.on("C01") && bulk_len != 0 && x < (1u128 << (C::SB - C::WB)) {
            viol!(ctx, "C01", "state-invariant-broken", "state={:#x} with non-empty bulk (len {})", x, bulk_len);
        }
        if ctx.any(&["C06", "C04"]) && self.r_valid {
            let bulk = self.coder.bulk_words();
            if x != self.r.x || bulk != self.r.bulk {
                viol!(ctx, ctx.prop, "ans-state-differs-from-reference",
                    "state={:#x} ref={:#x} bulk={:x?} ref_bulk={:x?}", x, self.r.x, tail(&bulk), tail(&self.r.bulk));
            }
        }
        if ctx.on("C18") {
            if let Some(words) = self.coder.export() {
                let nw = self.coder.num_words();
                if nw != words.len() {
                    viol!(ctx, "C18", "ans-num-words", "num_words()={} but export has {} words", nw, words.len());
                }
                if self.coder.num_bits() != words.len() * C::WB as usize {
                    viol!(ctx, "C18", "ans-num-bits", "num_bits()={} export {} words", self.coder.num_bits(), words.len());
                }
                if self.coder.is_empty() != words.is_empty() {
                    viol!(ctx, "C18", "ans-is-empty", "is_empty()={} export {} words", self.coder.is_empty(), words.len());
                }
                // num_valid_bits: position of the highest set bit of the export
                if let Some(&last) = words.last() {
                    let expect = (words.len() - 1) * C::WB as usize + (63 - last.leading_zeros() as usize);
                    let nvb = self.coder.num_valid_bits();
                    if nvb != expect {
                        viol!(ctx, "C18", "ans-num-valid-bits", "num_valid_bits()={} expected {}", nvb, expect);
                    }
                }
            }
        }
        if ctx.on("C18") && !self.garbled && self.stack.is_empty() && matches!(ctx.op.checked_sub(0).and_then(|i| self.t.ops.get(i)), Some(AnsOp::Dec { .. }) | Some(AnsOp::DecBatch { .. })) && self.n_popped > 0 {
            // the decoder has consumed precisely the encoded symbols
            let me = self.coder.maybe_exhausted();
            // after a `clear()` the coder is an initially empty one, whatever it was loaded with
            let init = if self.cleared { &Init::Empty } else { &self.t.init };
            match init {
                Init::Empty => {
                    ctx.stats.hit("exhaustion-checked");
                    if !me {
                        viol!(ctx, "C18", "ans-decoder-not-exhausted-after-last-symbol", "maybe_exhausted()=false after popping every encoded symbol off an initially empty coder");
                    }
                }
                Init::Compressed(w) | Init::Binary(w) if !w.is_empty() => {
                    ctx.stats.hit("non-exhaustion-checked");
                    if me {
                        viol!(ctx, "C18", "ans-decoder-exhausted-with-words-left", "maybe_exhausted()=true although the {} initial words are still on the coder", w.len());
                    }
                }
                _ => {}
            }
        }
        if ctx.on("C12") {
            self.check_c12(ctx, false)?;
        }
        Ok(())
    }

    fn check_c12(&mut self, ctx: &mut Ctx, force: bool) -> Result<(), Violation> {
        // long messages: the export is O(n), so beyond 2000 symbols the bound is evaluated at
        // every 37th symbol and at the end only (fewer evaluations of the same sound bound)
        if !force && self.n_enc > 2000 && self.n_enc % 37 != 0 {
            return Ok(());
        }
        if let Some(info) = self.info_bits {
            let words = match self.coder.export() {
                Some(w) => w,
                None => return Ok(()),
            };
            let bits = (words.len() * C::WB as usize) as f64;
            let slack = 1e-6 * self.n_enc as f64 + 1e-6;
            let bound = info + self.eps_bits + (C::SB + 2 * C::WB) as f64 + slack;
            if bits > bound {
                viol!(ctx, "C12", "ans-bits-exceed-bound", "n={} bits={} info={:.4} eps={:.4} const={}", self.n_enc, bits, info, self.eps_bits, C::SB + 2 * C::WB);
            }
            let wbound = self.n_enc + ((C::SB + 2 * C::WB) / C::WB) as usize;
            if words.len() > wbound {
                viol!(ctx, "C12", "ans-words-exceed-bound", "n={} words={}", self.n_enc, words.len());
            }
            ctx.stats.hit("c12-bound-checks");
        }
        Ok(())
    }

    fn push_entry(&mut self, sym: i64, m: usize, before: (usize, u64)) {
        self.serial += 1;
        self.stack.push(Entry { sym, m, serial: self.serial, before });
    }

    fn export_sig(&self) -> Option<(usize, u64)> {
        self.coder.export().map(|w| (w.len(), hash_words(&w)))
    }

    /// bookkeeping shared by all successful single-symbol encodes
    fn note_encode(&mut self, ctx: &mut Ctx, mi: usize, sym: i64, before: Option<(usize, u64)>, writes_before: usize) -> Result<(), Violation> {
        let m = self.model(mi).expect("checked");
        let (cum, prob) = m.lcp64(sym).expect("checked");
        let p = m.p as u32;
        if self.r_valid {
            self.r.encode(cum, prob, p);
        }
        // probes
        if prob == 1 {
            ctx.stats.hit("probe-prob-1");
        }
        if prob as u128 == (1u128 << p) - 1 {
            ctx.stats.hit("probe-prob-max");
        }
        let writes_after = self.coder.bulk_len();
        if writes_after > writes_before {
            ctx.stats.hit("probe-flush");
        }
        if ctx.on("C12") && writes_after > writes_before + 1 {
            viol!(ctx, "C12", "ans-more-than-one-write-per-encode", "bulk grew by {} words in one encode_symbol", writes_after - writes_before);
        }
        if let Some(info) = self.info_bits.as_mut() {
            *info += p as f64 - (prob as f64).log2();
            let d = (C::SB - C::WB - p) as i32;
            self.eps_bits += (1.0 + (2.0f64).powi(-d)).log2();
            self.n_enc += 1;
        }
        self.push_entry(sym, mi, before.unwrap_or((usize::MAX, 0)));
        Ok(())
    }

    /// C09 fault enumeration at *this* position of the history, on clones of the coder (the
    /// history itself is not disturbed): (a) a catalogue of out-of-support symbols for the
    /// model about to be used, (b) the very next backend write failing (Store backend) or the
    /// sink being full (bounded cursor with no room left).
    fn enumerate_faults_here(&mut self, mi: usize, sym: i64, ctx: &mut Ctx) -> Result<(), Violation> {
        let model = self.model(mi).expect("checked");
        let lo = *model.support.iter().min().unwrap();
        let hi = *model.support.iter().max().unwrap();
        let s0 = model.support[(self.n_enc + mi) % model.support.len()];
        let pre_state = self.coder.state();
        let pre_bulk = self.coder.bulk_words();
        for cand in [lo - 1, hi + 1, i64::from(i32::MAX), i64::from(i32::MIN), s0 + (1i64 << 8), s0 + (1i64 << 16), s0 + (1i64 << 32), s0 - (1i64 << 8), s0 + (1i64 << model.p.min(62)), s0 + (1i64 << model.pb.min(62))] {
            if model.in_support(cand) {
                continue;
            }
            let mut c = self.coder.clone_();
            let res = c.enc(model, cand);
            ctx.stats.hit("fault-badsym-enumerated");
            if !res.is_impossible() {
                viol!(ctx, "C09", "ans-impossible-symbol-not-rejected", "sym={} model={:?} -> {:?} (enumerated at encode position {})", cand, self.t.models[mi], res, self.n_enc);
            }
            if c.state() != pre_state || c.bulk_words() != pre_bulk {
                viol!(ctx, "C09", "ans-changed-by-rejected-symbol", "sym={} state {:#x}->{:#x}", cand, pre_state, c.state());
            }
        }
        // (b) write failure exactly at this encode
        let mut failing: Vec<Coder<C>> = Vec::new();
        match &self.coder {
            Coder::St(c) => {
                let (mut bulk, state) = c.clone().into_raw_parts();
                bulk.fail_write_in = Some(0);
                bulk.sticky = true;
                failing.push(Coder::St(AnsCoder::from_raw_parts(bulk, state)));
            }
            Coder::V(c) => {
                // same content on a cursor, and on a reversed cursor, with no room left
                let (bulk, state) = c.clone().into_raw_parts();
                let len = bulk.len();
                failing.push(Coder::Rev(AnsCoder::from_raw_parts(rev_cursor(&bulk, len), state)));
                if let Ok(cur) = Cursor::new_at_pos(bulk, len) {
                    failing.push(Coder::Cur(AnsCoder::from_raw_parts(cur, state)));
                }
            }
            _ => {}
        }
        // does this encode have to write a word at all?
        let flush_needed = {
            let mut probe = self.coder.clone_();
            matches!(probe.enc(model, sym), EncRes::Ok) && probe.bulk_len() > pre_bulk.len()
        };
        for mut c in failing {
            let res = c.enc(model, sym);
            if flush_needed && res == EncRes::Ok && !matches!(self.coder, Coder::St(_)) {
                viol!(ctx, "C09", "ans-write-on-full-sink-reported-success", "encode position {}: the sink has no room left, the encode must write a word, and it returned Ok (bulk now {:x?}, was {:x?})", self.n_enc, tail(&c.bulk_words()), tail(&pre_bulk));
            }
            match res {
                EncRes::Backend(_) => {
                    ctx.stats.hit("fault-write-failure-enumerated");
                    if c.state() != pre_state || c.bulk_words() != pre_bulk {
                        viol!(ctx, "C09", "ans-changed-by-failed-write", "state {:#x}->{:#x} (enumerated at encode position {})", pre_state, c.state(), self.n_enc);
                    }
                    // everything encoded before still decodes: pop the LIFO stack on the clone
                    for e in self.stack.iter().rev().take(4) {
                        let Some(mm) = self.model(e.m) else { break };
                        if !mm.can_decode() { break; }
                        let got = c.dec(mm);
                        if got != DecRes::Ok(e.sym) {
                            viol!(ctx, "C09", "ans-earlier-symbols-lost-after-failed-write", "decoded {:?} expected {}", got, e.sym);
                        }
                    }
                }
                EncRes::Ok => {} // no flush was needed at this position
                other => viol!(ctx, "C09", "in-support-symbol-rejected", "{:?}", other),
            }
        }
        Ok(())
    }

    fn step(&mut self, op: &AnsOp, ctx: &mut Ctx) -> Result<(), Violation> {
        let translated;
        let op = if let AnsOp::EncBack { idx, m } = op {
            match self.log.decoded.get(*idx) {
                Some(sym) => {
                    translated = AnsOp::Enc { sym: *sym, m: *m };
                    &translated
                }
                None => {
                    ctx.stats.hit("skipped-op");
                    return Ok(());
                }
            }
        } else {
            op
        };
        match op {
            AnsOp::EncBack { .. } => unreachable!(),
            AnsOp::Enc { sym, m } => {
                let Some(model) = self.model(*m) else { ctx.stats.hit("skipped-op"); return Ok(()) };
                if !model.can_encode() || model.lcp64(*sym).is_none() {
                    ctx.stats.hit("skipped-op");
                    return Ok(());
                }
                if ctx.on("C09") && self.n_enc <= 2000 {
                    // (clones of the coder: not for the very long messages of C12-style runs)
                    self.enumerate_faults_here(*m, *sym, ctx)?;
                }
                // (O(n) observations are skipped where the active property does not use them:
                // C12 runs messages of tens of thousands of symbols)
                let before = if ctx.on("C12") { None } else { self.export_sig() };
                let wb = self.coder.bulk_len();
                let pre_state = self.coder.state();
                let pre_bulk = if ctx.on("C09") { self.coder.bulk_words() } else { Vec::new() };
                let res = self.coder.enc(self.model(*m).unwrap(), *sym);
                match res {
                    EncRes::Ok => {
                        ctx.stats.hit("op-enc");
                        self.note_encode(ctx, *m, *sym, before, wb)?;
                    }
                    EncRes::Backend(_) => {
                        ctx.stats.hit("fault-write-fired");
                        // C09: a failed write leaves the ANS coder intact
                        if ctx.on("C09") {
                            if self.coder.state() != pre_state || self.coder.bulk_words() != pre_bulk {
                                viol!(ctx, "C09", "ans-changed-by-failed-write", "state {:#x}->{:#x}", pre_state, self.coder.state());
                            }
                        }
                    }
                    other => {
                        if ctx.any(&["C01", "C09"]) {
                            viol!(ctx, ctx.prop, "in-support-symbol-rejected", "sym={} model={} -> {:?}", sym, m, other);
                        }
                        self.bump_epoch();
                        self.r_valid = false;
                    }
                }
            }
            AnsOp::EncBatch { form, items, fail_at } => self.enc_batch(*form, items, *fail_at, ctx)?,
            AnsOp::Dec { m } => {
                let Some(model) = self.model(*m) else { ctx.stats.hit("skipped-op"); return Ok(()) };
                if !model.can_decode() {
                    ctx.stats.hit("skipped-op");
                    return Ok(());
                }
                let res = self.coder.dec(self.model(*m).unwrap());
                self.note_decode(ctx, *m, res, true)?;
            }
            AnsOp::DecBatch { form, ms, fail_at } => self.dec_batch(*form, ms, *fail_at, ctx)?,
            AnsOp::Reload { binary } => self.reload(*binary, ctx)?,
            AnsOp::CloneSwap => {
                // two ways to obtain a copy: `clone()`, or `clone_from()` into a coder that
                // holds something else (an older copy of this coder, or a small unrelated one);
                // which way is a function of the coder's state
                let via_clone_from = (self.coder.bulk_len().wrapping_add(self.coder.state() as usize)) & 1 == 1;
                let c = if via_clone_from {
                    let mut target = match self.stale.take() {
                        Some(t) => t,
                        None => Coder::<C>::from_binary(&self.t.backend, &[0x5a, 0xa5, 0x3c]).unwrap_or_else(|| self.coder.clone_()),
                    };
                    ctx.stats.hit("op-clone-from");
                    target.clone_from_(&self.coder);
                    target
                } else {
                    self.coder.clone_()
                };
                let old = std::mem::replace(&mut self.coder, c);
                // the replaced coder becomes the (stale) target of a later `clone_from`
                self.stale = Some(old);
                ctx.stats.hit("op-clone-swap");
            }
            AnsOp::Inspect { view, n } => {
                if !self.skip_inspect {
                    self.inspect(*view, *n, ctx)?;
                }
            }
            AnsOp::ClearCoder => {
                let Coder::V(c) = &mut self.coder else { ctx.stats.hit("skipped-op"); return Ok(()) };
                c.clear();
                ctx.stats.hit("op-clear");
                self.r = RefAns::empty(C::WB, C::SB);
                self.r_valid = true;
                self.stack.clear();
                self.epoch += 1;
                self.garbled = false;
                self.cleared = true;
                // "starting from an empty coder" holds again (C12)
                self.info_bits = Some(0.0);
                self.eps_bits = 0.0;
                self.n_enc = 0;
                if ctx.any(&["C01", "C06", "C08"]) && (self.coder.state() != 0 || self.coder.bulk_len() != 0 || self.coder.export().map_or(true, |w| !w.is_empty())) {
                    viol!(ctx, ctx.prop, "clear-does-not-empty-the-coder", "state {:#x}, {} bulk words", self.coder.state(), self.coder.bulk_len());
                }
            }
            AnsOp::Snapshot => {
                let (pos, state) = self.coder.pos();
                self.snaps.push(Snap {
                    pos,
                    state,
                    depth: self.stack.len(),
                    top_serial: self.stack.last().map_or(0, |e| e.serial),
                    epoch: self.epoch,
                });
                ctx.stats.hit("op-snapshot");
            }
            AnsOp::Seek { via, snap, n } => self.seek(*via, *snap, *n, ctx)?,
            AnsOp::SeekBeyond { via, extra } => self.seek_beyond(*via, *extra, ctx)?,
            AnsOp::BadSym { m, sym } => {
                let Some(model) = self.model(*m) else { ctx.stats.hit("skipped-op"); return Ok(()) };
                if !model.can_encode() || model.in_support(*sym) {
                    ctx.stats.hit("skipped-op");
                    return Ok(());
                }
                let pre_state = self.coder.state();
                let pre_bulk = self.coder.bulk_words();
                let res = self.coder.enc(self.model(*m).unwrap(), *sym);
                ctx.stats.hit("fault-badsym-injected");
                if ctx.on("C09") {
                    if !res.is_impossible() {
                        viol!(ctx, "C09", "ans-impossible-symbol-not-rejected", "sym={} model={:?} -> {:?}", sym, self.t.models[*m], res);
                    }
                    if self.coder.state() != pre_state || self.coder.bulk_words() != pre_bulk {
                        viol!(ctx, "C09", "ans-changed-by-rejected-symbol", "state {:#x}->{:#x}", pre_state, self.coder.state());
                    }
                } else if res == EncRes::Ok {
                    // some other symbol got encoded: references are off from here on
                    self.bump_epoch();
                    self.r_valid = false;
                    self.info_bits = None;
                }
            }
            AnsOp::Fault(f) => {
                if let Coder::St(c) = &mut self.coder {
                    let (mut bulk, state) = c.clone().into_raw_parts();
                    match f {
                        FaultOp::WriteIn(k) => bulk.fail_write_in = Some(*k),
                        FaultOp::Room(c) => bulk.capacity = Some(bulk.data.len() + *c),
                        FaultOp::Clear => {
                            bulk.fail_write_in = None;
                            bulk.capacity = None;
                        }
                    }
                    *c = AnsCoder::from_raw_parts(bulk, state);
                    ctx.stats.hit("fault-armed");
                } else {
                    ctx.stats.hit("skipped-op");
                }
            }
        }
        Ok(())
    }

    fn note_decode(&mut self, ctx: &mut Ctx, mi: usize, res: DecRes, check_restore: bool) -> Result<(), Violation> {
        let model = self.model(mi).expect("checked");
        let p = model.p as u32;
        self.info_bits = None;
        match res {
            DecRes::Ok(sym) => {
                ctx.stats.hit("op-dec");
                self.log.decoded.push(sym);
                if ctx.any(&["C10", "C04"]) && !model.in_support(sym) {
                    viol!(ctx, ctx.prop, "ans-decoded-symbol-outside-support", "sym={} model={:?}", sym, self.t.models[mi]);
                }
                // reference prediction
                if self.r_valid {
                    let q = self.r.peek_quantile(p);
                    let (rsym, cum, prob) = model.quant64(q);
                    if self.r.bulk.is_empty() && self.r.x < (1u128 << (C::SB - C::WB)) {
                        ctx.stats.hit("probe-decode-on-empty-bulk");
                    }
                    let had = self.r.bulk.len();
                    self.r.decode(cum, prob, p);
                    if self.r.bulk.len() < had {
                        ctx.stats.hit("probe-refill");
                    }
                    if ctx.any(&["C04", "C06"]) && rsym != sym {
                        viol!(ctx, ctx.prop, "ans-decoded-symbol-differs-from-reference", "got {} reference {}", sym, rsym);
                    }
                }
                // R-STACK
                match self.stack.last().cloned() {
                    Some(top) if top.m == mi => {
                        ctx.stats.hit("lifo-pops-checked");
                        self.n_popped += 1;
                        if ctx.on("C01") && top.sym != sym {
                            viol!(ctx, "C01", "lifo-symbol-mismatch", "decoded {} but most recent un-popped encode was {} (model {})", sym, top.sym, mi);
                        }
                        self.stack.pop();
                        if ctx.on("C01") && check_restore {
                            if let (Some(sig), true) = (self.export_sig(), top.before.0 != usize::MAX) {
                                if sig != top.before {
                                    viol!(ctx, "C01", "words-not-restored-after-pop", "export has {} words after pop, had {} before the push", sig.0, top.before.0);
                                }
                            }
                        }
                        if top.sym != sym {
                            self.bump_epoch();
                        }
                    }
                    _ => {
                        // decode with another model (or below the recorded history): legal,
                        // deterministic, but the stack content below is consumed differently
                        ctx.stats.hit("dec-with-other-model");
                        self.bump_epoch();
                    }
                }
            }
            DecRes::Backend(_) => {
                ctx.stats.hit("fault-read-fired");
                self.bump_epoch();
                self.r_valid = false;
            }
            other => {
                if ctx.any(&["C01", "C04", "C10"]) {
                    viol!(ctx, ctx.prop, "ans-decode-failed", "{:?}", other);
                }
                self.bump_epoch();
                self.r_valid = false;
            }
        }
        Ok(())
    }

    fn enc_batch(&mut self, form: EncForm, items: &[(i64, usize)], fail_at: Option<usize>, ctx: &mut Ctx) -> Result<(), Violation> {
        // validity: all models exist, can encode, same (pb,p); iid: same model
        let mut resolved: Vec<(i64, &Built)> = Vec::new();
        // at most one impossible symbol: the batch must stop there with ImpossibleSymbol,
        // having encoded exactly the symbols in front of it
        let mut bad_idx: Option<usize> = None;
        for (i, (s, m)) in items.iter().enumerate() {
            match self.model(*m) {
                Some(b) if b.can_encode() && b.lcp64(*s).is_some() => resolved.push((*s, b)),
                Some(b) if b.can_encode() && !b.in_support(*s) && bad_idx.is_none() && !matches!(form, EncForm::Try | EncForm::TryRev | EncForm::Loop) => {
                    bad_idx = Some(i);
                    resolved.push((*s, b));
                }
                _ => {
                    ctx.stats.hit("skipped-op");
                    return Ok(());
                }
            }
        }
        if let Some((_, f)) = resolved.first() {
            if !resolved.iter().all(|(_, b)| b.pb == f.pb && b.p == f.p) {
                ctx.stats.hit("skipped-op");
                return Ok(());
            }
        }
        let iid = matches!(form, EncForm::Iid | EncForm::IidRev);
        if iid && !items.iter().all(|(_, m)| *m == items[0].1) {
            ctx.stats.hit("skipped-op");
            return Ok(());
        }
        let is_try = matches!(form, EncForm::Try | EncForm::TryRev);
        let fail_at = if is_try { fail_at.filter(|k| *k <= items.len()) } else { None };
        // twin: per-symbol loop on a clone (C01 oracle 3)
        let mut twin = self.coder.clone_();
        // the `_reverse` try form consumes the iterator from the back: items *after* the
        // failing one (in logical order) are the ones that get encoded ... see below
        let expect_n = match (form, fail_at) {
            (EncForm::Try, Some(k)) => k,
            // try_encode_symbols_reverse walks the reversed iterator; we handed it the items
            // reversed, so it sees logical order and stops at the Err in front of index k
            (EncForm::TryRev, Some(k)) => k,
            _ => bad_idx.unwrap_or(items.len()),
        };
        if bad_idx.is_some() {
            ctx.stats.hit("fault-badsym-in-batch");
        }
        let sig0 = self.export_sig();
        let wb = self.coder.bulk_len();
        let res = self.coder.enc_batch(form, &resolved, fail_at);
        ctx.stats.hit(&format!("op-enc-batch-{:?}", form));
        let mut twin_ok = true;
        for (s, b) in resolved.iter().take(expect_n) {
            if twin.enc(b, *s) != EncRes::Ok {
                twin_ok = false;
                break;
            }
        }
        let expected_res = match (fail_at, bad_idx) {
            (Some(k), _) => EncRes::IterErr(k as i64),
            (None, Some(_)) => EncRes::Frontend("ImpossibleSymbol".into()),
            (None, None) => EncRes::Ok,
        };
        if matches!(res, EncRes::Backend(_)) || !twin_ok {
            // write fault inside a batch: how many symbols made it is whatever the loop did;
            // nothing is asserted beyond "twin equality" which needs a fault-free twin
            ctx.stats.hit("fault-write-fired");
            self.bump_epoch();
            self.r_valid = false;
            self.info_bits = None;
            return Ok(());
        }
        if ctx.on("C01") || (bad_idx.is_some() && ctx.any(&["C09", "C04"])) {
            if res != expected_res {
                viol!(ctx, ctx.prop, "batch-result-differs", "form {:?} fail_at {:?}: got {:?} expected {:?}", form, fail_at, res, expected_res);
            }
            if self.coder.state() != twin.state() || self.coder.bulk_words() != twin.bulk_words() {
                viol!(ctx, ctx.prop, "batch-form-differs-from-loop", "form {:?} n={} fail_at {:?}: state {:#x} vs loop {:#x}", form, items.len(), fail_at, self.coder.state(), twin.state());
            }
        }
        if fail_at.is_some() {
            ctx.stats.hit("fault-itererr-fired");
        }
        // bookkeeping as if encoded one by one (only exact when the real coder agrees with the twin)
        let _ = wb;
        let mut sig = sig0;
        if self.coder.state() == twin.state() && self.coder.bulk_words() == twin.bulk_words() {
            // replay on a second clone to collect per-symbol "before" signatures cheaply only
            // for short batches
            for (idx, (s, m)) in items.iter().take(expect_n).enumerate() {
                let model = self.model(*m).unwrap();
                let (cum, prob) = model.lcp64(*s).unwrap();
                let p = model.p as u32;
                if self.r_valid {
                    self.r.encode(cum, prob, p);
                }
                if let Some(info) = self.info_bits.as_mut() {
                    *info += p as f64 - (prob as f64).log2();
                    let d = (C::SB - C::WB - p) as i32;
                    self.eps_bits += (1.0 + (2.0f64).powi(-d)).log2();
                    self.n_enc += 1;
                }
                // only the first pushed symbol's "before" signature is known exactly; deeper
                // ones are unknown (usize::MAX = "do not compare")
                let before = if idx == 0 { sig.take().unwrap_or((usize::MAX, 0)) } else { (usize::MAX, 0) };
                self.push_entry(*s, *m, before);
            }
        } else {
            self.bump_epoch();
            self.r_valid = false;
            self.info_bits = None;
        }
        Ok(())
    }

    fn dec_batch(&mut self, form: DecForm, ms: &[usize], fail_at: Option<usize>, ctx: &mut Ctx) -> Result<(), Violation> {
        let mut resolved: Vec<&Built> = Vec::new();
        for m in ms {
            match self.model(*m) {
                Some(b) if b.can_decode() => resolved.push(b),
                _ => {
                    ctx.stats.hit("skipped-op");
                    return Ok(());
                }
            }
        }
        if let Some(f) = resolved.first() {
            if !resolved.iter().all(|b| b.pb == f.pb && b.p == f.p) {
                ctx.stats.hit("skipped-op");
                return Ok(());
            }
        }
        if matches!(form, DecForm::Iid | DecForm::IidNth) && !ms.iter().all(|m| *m == ms[0]) {
            ctx.stats.hit("skipped-op");
            return Ok(());
        }
        let fail_at = if form == DecForm::Try { fail_at.filter(|k| *k <= ms.len()) } else { None };
        let mut twin = self.coder.clone_();
        let mut res = self.coder.dec_batch(form, &resolved, fail_at);
        ctx.stats.hit(&format!("op-dec-batch-{:?}", form));
        // expected: the per-symbol loop; the fallible-iterator form yields an Err item at
        // fail_at *and keeps going* (documented: "we don't terminate when we encounter an error")
        let mut expected: Vec<DecRes> = Vec::new();
        for (i, b) in resolved.iter().enumerate() {
            if Some(i) == fail_at {
                expected.push(DecRes::IterErr(i as i64));
            }
            expected.push(twin.dec(b));
        }
        if fail_at == Some(resolved.len()) {
            expected.push(DecRes::IterErr(resolved.len() as i64));
        }
        if fail_at.is_some() {
            ctx.stats.hit("fault-itererr-fired");
        }
        // the last symbol of an `IidNth` batch was consumed inside the iterator adaptor: its
        // value is not observable (the coder state afterwards is, and is compared below)
        if form == DecForm::IidNth && res.last() == Some(&DecRes::Frontend(crate::dynops::NTH_MARKER.into())) && res.len() == expected.len() {
            let n = res.len();
            res[n - 1] = expected[n - 1].clone();
        }
        if ctx.on("C01") {
            if res != expected {
                viol!(ctx, "C01", "decode-batch-differs-from-loop", "form {:?}: got {:?} expected {:?}", form, res, expected);
            }
            if self.coder.state() != twin.state() || self.coder.bulk_words() != twin.bulk_words() {
                viol!(ctx, "C01", "decode-batch-state-differs-from-loop", "form {:?}", form);
            }
        }
        let mut mi = ms.iter();
        let n_real = res.iter().filter(|r| !matches!(r, DecRes::IterErr(_))).count();
        let mut k = 0;
        for r in res {
            if let DecRes::IterErr(_) = r {
                continue;
            }
            let Some(m) = mi.next() else { break };
            k += 1;
            // the coder is only observable after the whole batch: "words restored" can be
            // checked for the last pop only
            self.note_decode(ctx, *m, r, k == n_real)?;
        }
        Ok(())
    }

    fn reload(&mut self, binary: bool, ctx: &mut Ctx) -> Result<(), Violation> {
        let Some(words) = self.coder.export() else { ctx.stats.hit("skipped-op"); return Ok(()) };
        if ctx.any(&["C06", "C04"]) && self.r_valid && words != self.r.words() {
            viol!(ctx, ctx.prop, "ans-export-differs-from-reference", "export={:x?} reference={:x?}", tail(&words), tail(&self.r.words()));
        }
        if binary {
            // raw-binary round trip, only meaningful when the payload is whole words
            let bin_avail = self.coder.binary();
            let bin = bin_avail.clone().flatten();
            let expect = if self.r_valid { Some(self.r.binary()) } else { None };
            if let (Some(expect), true) = (expect, bin_avail.is_some()) {
                if ctx.on("C04") && bin != expect {
                    viol!(ctx, ctx.prop, "into-binary-differs-from-reference", "into_binary={:x?} reference={:x?}", bin, expect);
                }
            }
            // both raw-binary accessors must agree with each other
            if let Coder::V(c) = &mut self.coder {
                let gb = c.get_binary().ok().map(|g| g.iter().map(|&w| w_to(w)).collect::<Vec<u64>>());
                if ctx.on("C04") && gb != bin {
                    viol!(ctx, "C04", "get-binary-differs-from-into-binary", "get_binary={:x?} into_binary={:x?}", gb, bin);
                }
            }
            if let Some(bin) = bin {
                ctx.stats.hit("op-reload-binary");
                match Coder::<C>::from_binary(&self.t.backend, &bin) {
                    Some(c) => self.coder = c,
                    None => viol!(ctx, ctx.prop, "from-binary-refused", "{:x?}", bin),
                }
                return Ok(());
            }
            ctx.stats.hit("reload-binary-not-whole-words");
            return Ok(());
        }
        ctx.stats.hit("op-reload");
        if let Some(&last) = words.last() {
            if last == 0 && ctx.on("C01") {
                viol!(ctx, "C01", "export-ends-in-zero-word", "{:x?}", tail(&words));
            }
        }
        match Coder::<C>::from_words(&self.t.backend, &words) {
            Some(c) => {
                if ctx.on("C01") && (c.state() != self.coder.state() || c.bulk_words() != self.coder.bulk_words()) {
                    viol!(ctx, "C01", "reimport-differs", "state {:#x} -> {:#x}", self.coder.state(), c.state());
                }
                self.coder = c;
            }
            None => {
                if ctx.on("C01") {
                    viol!(ctx, "C01", "reimport-refused", "{:x?}", tail(&words));
                }
                self.bump_epoch();
                self.r_valid = false;
            }
        }
        Ok(())
    }

    /// Temporary views.  None of them may leave a trace on the coder (C08); each must show
    /// exactly what exporting now would return (C08/C18); temp decoders must pop the stack's
    /// symbols (C01).
    fn inspect(&mut self, view: View, n: usize, ctx: &mut Ctx) -> Result<(), Violation> {
        let pre_state = self.coder.state();
        let pre_bulk = self.coder.bulk_words();
        let Some(words) = self.coder.export() else { ctx.stats.hit("skipped-op"); return Ok(()) };
        ctx.stats.hit(&format!("inspect-{:?}", view));
        let wsw: Vec<C::W> = words.iter().map(|&w| w_from(w)).collect();
        // what temp decoders should yield: the stack's symbols top-down
        let want: Vec<(usize, i64)> = self.stack.iter().rev().take(n).map(|e| (e.m, e.sym)).collect();
        let c8 = ctx.on("C08");
        macro_rules! check_decoder {
            ($d:expr, $what:expr) => {{
                let mut d = $d;
                for (mi, sym) in &want {
                    let Some(model) = self.model(*mi) else { break };
                    if !model.can_decode() { break; }
                    let r = <C::W as WordOps>::dec(&mut d, model);
                    if ctx.any(&["C01", "C08"]) && r != DecRes::Ok(*sym) {
                        viol!(ctx, ctx.prop, "temp-decoder-wrong-symbol", "{}: got {:?} expected {}", $what, r, sym);
                    }
                }
            }};
        }
        match view {
            View::GetCompressed => {
                let shown: Option<Vec<u64>> = match &mut self.coder {
                    Coder::V(c) => Some(c.get_compressed().unwrap_infallible().iter().map(|&w| w_to(w)).collect()),
                    Coder::Sm(c) => Some(c.get_compressed().unwrap_infallible().iter().map(|&w| w_to(w)).collect()),
                    Coder::Cur(c) => c.get_compressed().ok().map(|g| { let b: &Cursor<C::W, Vec<C::W>> = &g; b.buf()[..b.pos()].iter().map(|&w| w_to(w)).collect() }),
                    Coder::St(_) => None,
                    Coder::Rev(c) => c.get_compressed().ok().map(|g| { let b: &constriction::backends::Reverse<Cursor<C::W, Vec<C::W>>> = &g; b.0.buf()[b.0.pos()..].iter().rev().map(|&w| w_to(w)).collect() }),
                };
                if let Some(shown) = shown {
                    if c8 && shown != words {
                        viol!(ctx, "C08", "ans-get-compressed-view-differs", "view={:x?} export={:x?}", tail(&shown), tail(&words));
                    }
                }
            }
            View::GetBinary => {
                if let Coder::V(c) = &mut self.coder {
                    let shown = c.get_binary().ok().map(|g| g.iter().map(|&w| w_to(w)).collect::<Vec<u64>>());
                    // accept/refuse must match the payload being whole words
                    let whole = words.last().map_or(false, |&l| l == 1);
                    let expect = if whole { Some(words[..words.len() - 1].to_vec()) } else { None };
                    // `expect` derived from the export: payload is whole words iff the last
                    // exported word is exactly 1 (marker bit alone)
                    if c8 && shown != expect {
                        viol!(ctx, "C08", "ans-get-binary-view-differs", "view={:x?} expected={:x?}", shown, expect);
                    }
                    if whole { ctx.stats.hit("probe-get-binary-accept"); } else { ctx.stats.hit("probe-get-binary-refuse"); }
                }
            }
            View::IterCompressed => {
                let shown: Option<Vec<u64>> = match &self.coder {
                    Coder::V(c) => Some(c.iter_compressed().map(w_to).collect()),
                    Coder::Sm(c) => Some(c.iter_compressed().map(w_to).collect()),
                    _ => None,
                };
                if let Some(shown) = shown {
                    if c8 && shown != words {
                        viol!(ctx, "C08", "ans-iter-compressed-differs", "iter={:x?} export={:x?}", tail(&shown), tail(&words));
                    }
                }
            }
            View::AsDecoder => match &self.coder {
                Coder::V(c) => check_decoder!(c.as_decoder(), "as_decoder"),
                Coder::Sm(c) => check_decoder!(c.clone(), "clone(smallvec)"),
                _ => {}
            },
            View::IntoDecoderClone => match &self.coder {
                Coder::V(c) => check_decoder!(c.clone().into_decoder(), "into_decoder"),
                Coder::Cur(c) => check_decoder!(c.clone(), "clone(cursor)"),
                _ => {}
            },
            View::Slice => {
                match AnsCoder::<C::W, C::S, _>::from_compressed_slice(&wsw) {
                    Ok(d) => check_decoder!(d, "from_compressed_slice"),
                    Err(()) => if ctx.any(&["C01", "C08"]) { viol!(ctx, ctx.prop, "slice-import-refused", "{:x?}", tail(&words)) },
                }
            }
            View::Reversed => {
                let mut rev = wsw.clone();
                rev.reverse();
                match AnsCoder::<C::W, C::S, _>::from_reversed_compressed(rev) {
                    Ok(d) => check_decoder!(d, "from_reversed_compressed"),
                    Err(_) => if ctx.any(&["C01", "C08"]) { viol!(ctx, ctx.prop, "reversed-import-refused", "{:x?}", tail(&words)) },
                }
            }
            View::RevIter => {
                let it = wsw.clone().into_iter().rev().map(Ok::<C::W, ()>);
                match AnsCoder::<C::W, C::S, _>::from_reversed_compressed_iter(it) {
                    Ok(d) => check_decoder!(d, "from_reversed_compressed_iter"),
                    Err(_) => if ctx.any(&["C01", "C08"]) { viol!(ctx, ctx.prop, "reviter-import-refused", "{:x?}", tail(&words)) },
                }
            }
            View::Queries => {
                let _ = (self.coder.num_words(), self.coder.num_bits(), self.coder.num_valid_bits(), self.coder.is_empty(), self.coder.pos());
            }
            View::BinaryDecoders => {
                // payload is whole words iff the last exported word is the marker bit alone
                if words.last() == Some(&1) {
                    ctx.stats.hit("probe-binary-decoders");
                    let payload: Vec<C::W> = wsw[..wsw.len() - 1].to_vec();
                    // what any decoder over this payload must yield: what a clone of the coder yields
                    let n_models = self.t.models.len().max(1);
                    let plan: Vec<usize> = (0..n).map(|i| (i + words.len()) % n_models).collect();
                    let mut reference = self.coder.clone_();
                    let mut expect: Vec<(usize, DecRes)> = Vec::new();
                    for mi in &plan {
                        let Some(model) = self.model(*mi) else { break };
                        if !model.can_decode() { break; }
                        expect.push((*mi, reference.dec(model)));
                    }
                    macro_rules! same_as_clone {
                        ($d:expr, $what:expr) => {{
                            let mut d = $d;
                            for (mi, want) in &expect {
                                let model = self.model(*mi).expect("checked");
                                let got = <C::W as WordOps>::dec(&mut d, model);
                                if ctx.any(&["C04", "C08", "C01"]) && got != *want {
                                    viol!(ctx, ctx.prop, "binary-decoder-differs-from-coder", "{}: got {:?}, the coder itself decodes {:?} (payload {:x?})", $what, got, want, tail(&words[..words.len() - 1]));
                                }
                            }
                        }};
                    }
                    same_as_clone!(AnsCoder::<C::W, C::S, _>::from_binary_slice(&payload), "from_binary_slice");
                    let mut rev = payload.clone();
                    rev.reverse();
                    same_as_clone!(AnsCoder::<C::W, C::S, _>::from_reversed_binary(rev), "from_reversed_binary");
                    let it = payload.clone().into_iter().rev().map(Ok::<C::W, ()>);
                    match AnsCoder::<C::W, C::S, _>::from_reversed_binary_iter(it) {
                        Ok(d) => same_as_clone!(d, "from_reversed_binary_iter"),
                        Err(()) => if ctx.any(&["C04", "C08"]) { viol!(ctx, ctx.prop, "binary-iter-import-refused", "{:x?}", tail(&words)) },
                    }
                    // the same payload as the first frame of a longer, legally non-fused source
                    // (yields `None` at the frame boundary, then the next frame's words): the
                    // constructor's view of the end of the data must be final
                    {
                        let frame: Vec<C::W> = payload.iter().rev().cloned().collect();
                        let next_frame: Vec<C::W> = (0..4u64).map(|i| w_from::<C::W>(0xA5A5_5A5A_C3C3_3C3Cu64.rotate_left(7 * i as u32) | 1)).collect();
                        let mut i = 0usize;
                        let mut gap_done = false;
                        let src = std::iter::from_fn(move || {
                            if i == frame.len() && !gap_done { gap_done = true; return None; }
                            let k = i; i += 1;
                            if k < frame.len() { Some(Ok::<C::W, ()>(frame[k])) } else { next_frame.get(k - frame.len()).cloned().map(Ok) }
                        });
                        ctx.stats.hit("probe-binary-iter-two-frames");
                        match AnsCoder::<C::W, C::S, _>::from_reversed_binary_iter(src) {
                            Ok(d) => same_as_clone!(d, "from_reversed_binary_iter(first frame of a non-fused source)"),
                            Err(()) => if ctx.any(&["C04", "C08"]) { viol!(ctx, ctx.prop, "binary-iter-import-refused", "{:x?}", tail(&words)) },
                        }
                    }
                }
            }
            View::CloneDrop => {
                let mut c = self.coder.clone_();
                // use the clone a little; the original must not care
                for (mi, _) in &want {
                    if let Some(model) = self.model(*mi) {
                        if model.can_decode() { let _ = c.dec(model); }
                    }
                }
                drop(c);
            }
        }
        if c8 && (self.coder.state() != pre_state || self.coder.bulk_words() != pre_bulk) {
            viol!(ctx, "C08", "ans-inspection-left-a-trace", "view {:?}: state {:#x}->{:#x}, bulk {} -> {} words", view, pre_state, self.coder.state(), pre_bulk.len(), self.coder.bulk_len());
        }
        Ok(())
    }

    fn seek(&mut self, via: SeekVia, snap: usize, n: usize, ctx: &mut Ctx) -> Result<(), Violation> {
        let Some(s) = self.snaps.get(snap).cloned() else { ctx.stats.hit("skipped-op"); return Ok(()) };
        // the snapshot is only meaningful while the data below it is untouched
        let valid = s.epoch == self.epoch
            && s.depth <= self.stack.len()
            && (s.depth == 0 || self.stack[s.depth - 1].serial == s.top_serial);
        if !valid {
            ctx.stats.hit("seek-stale-snapshot-skipped");
            return Ok(());
        }
        let want: Vec<(usize, i64)> = self.stack[..s.depth].iter().rev().take(n).map(|e| (e.m, e.sym)).collect();
        let state: C::S = s_from(s.state);
        ctx.stats.hit(&format!("op-seek-{:?}", via));
        macro_rules! run {
            ($d:expr, $pos:expr, $what:expr) => {{
                let mut d = $d;
                // wander off first: decode a little from wherever the decoder is
                if d.seek(($pos, state)).is_err() {
                    if ctx.on("C07") {
                        viol!(ctx, "C07", "ans-seek-refused", "{}: pos {} refused", $what, $pos);
                    }
                    return Ok(());
                }
                for (mi, sym) in &want {
                    let Some(model) = self.model(*mi) else { break };
                    if !model.can_decode() { break; }
                    let r = <C::W as WordOps>::dec(&mut d, model);
                    ctx.stats.hit("seek-symbols-checked");
                    if ctx.on("C07") && r != DecRes::Ok(*sym) {
                        viol!(ctx, "C07", "ans-seek-wrong-symbol", "{}: after seek to snapshot {} (depth {}): got {:?} expected {}", $what, snap, s.depth, r, sym);
                    }
                }
            }};
        }
        match (&self.coder, via) {
            (Coder::V(c), SeekVia::AsSeekable) => run!(c.as_seekable_decoder(), s.pos, "as_seekable_decoder"),
            (Coder::V(c), SeekVia::IntoSeekable) => run!(c.clone().into_seekable_decoder(), s.pos, "into_seekable_decoder"),
            (Coder::V(c), SeekVia::ConsumingVec) => run!(c.clone(), s.pos, "consuming Vec"),
            (Coder::Cur(c), SeekVia::AsSeekable) | (Coder::Cur(c), SeekVia::IntoSeekable) => run!(c.clone(), s.pos, "cursor"),
            (Coder::Sm(c), _) => run!(c.clone(), s.pos, "consuming SmallVec"),
            (Coder::V(c), SeekVia::Reversed) => {
                // reversed backend over the *bulk* only: positions mirror
                let (bulk, st) = c.clone().into_raw_parts();
                let len = bulk.len();
                if s.pos > len {
                    if ctx.on("C07") {
                        viol!(ctx, "C07", "ans-seek-refused", "snapshot position {} lies beyond the data ({} words) although nothing below it was popped", s.pos, len);
                    }
                    return Ok(());
                }
                let cur = Cursor::new_at_write_end(bulk);
                let d = AnsCoder::<C::W, C::S, _>::from_raw_parts(cur, st).into_reversed();
                run!(d, len - s.pos, "reversed cursor");
            }
            _ => ctx.stats.hit("skipped-op"),
        }
        Ok(())
    }

    fn seek_beyond(&mut self, via: SeekVia, extra: usize, ctx: &mut Ctx) -> Result<(), Violation> {
        let len = self.coder.bulk_len();
        let pos = len + 1 + extra;
        // the state that comes with the bogus position is some other state (a snapshot of a
        // longer stream): a refused seek must not install it
        let state: C::S = s_from(self.coder.state() ^ 0x5a5a_5a5a);
        ctx.stats.hit("fault-seek-beyond");
        let want: Vec<(usize, i64)> = self.stack.iter().rev().take(3).map(|e| (e.m, e.sym)).collect();
        macro_rules! run {
            ($d:expr, $what:expr) => {{
                let mut d = $d;
                let before = d.pos();
                let r = d.seek((pos, state));
                if ctx.on("C07") && r.is_ok() {
                    viol!(ctx, "C07", "ans-seek-beyond-data-accepted", "{}: pos {} with {} words", $what, pos, len);
                }
                if r.is_err() {
                    if ctx.on("C07") && d.pos() != before {
                        viol!(ctx, "C07", "ans-refused-seek-changed-the-decoder", "{}: pos() {:?} -> {:?} after a refused seek to {}", $what, before, d.pos(), pos);
                    }
                    // ... and decoding simply goes on where it was
                    for (mi, sym) in &want {
                        let Some(model) = self.model(*mi) else { break };
                        if !model.can_decode() { break; }
                        let got = <C::W as WordOps>::dec(&mut d, model);
                        if ctx.on("C07") && got != DecRes::Ok(*sym) {
                            viol!(ctx, "C07", "ans-wrong-symbol-after-refused-seek", "{}: got {:?} expected {}", $what, got, sym);
                        }
                    }
                }
            }};
        }
        match (&self.coder, via) {
            (Coder::V(c), SeekVia::AsSeekable) => run!(c.as_seekable_decoder(), "as_seekable_decoder"),
            (Coder::V(c), SeekVia::IntoSeekable) => run!(c.clone().into_seekable_decoder(), "into_seekable_decoder"),
            (Coder::V(c), _) => run!(c.clone(), "consuming Vec"),
            (Coder::Sm(c), _) => run!(c.clone(), "consuming SmallVec"),
            _ => {}
        }
        Ok(())
    }

    fn finish(&mut self, ctx: &mut Ctx) -> Result<(), Violation> {
        if ctx.on("C12") {
            self.check_c12(ctx, true)?;
        }
        let words = self.coder.export();
        if let Some(words) = &words {
            if ctx.any(&["C06", "C04"]) && self.r_valid && *words != self.r.words() {
                viol!(ctx, ctx.prop, "ans-export-differs-from-reference", "export={:x?} reference={:x?}", tail(words), tail(&self.r.words()));
            }
        }
        if ctx.on("C06") {
            if let (Some(e), Some(w)) = (&self.t.expect, &words) {
                ctx.stats.hit("published-vectors-checked");
                if e != w {
                    viol!(ctx, "C06", "published-vector-mismatch", "the project's documentation prints {:x?} for this message, the coder produced {:x?}", e, w);
                }
                if self.r_valid && self.r.words() != *e {
                    viol!(ctx, "HARNESS", "reference-disagrees-with-published-vector", "reference {:x?} published {:x?}", self.r.words(), e);
                }
            }
            if let Some(e) = &self.t.expect_decoded {
                ctx.stats.hit("published-vectors-checked");
                if *e != self.log.decoded {
                    viol!(ctx, "C06", "published-vector-decode-mismatch", "documentation: {:?}, decoded: {:?}", e, self.log.decoded);
                }
            }
        }
        self.log.final_words = words;
        // C04: if the whole history was "load binary, decode k, encode the same k back in
        // reverse", the raw binary export must be the original data.  Recognised structurally.
        if ctx.on("C04") {
            if let Init::Binary(orig) = &self.t.init {
                if self.is_bitsback_shape() {
                    let orig: Vec<u64> = orig.iter().map(|&w| w_to(w_from::<C::W>(w))).collect();
                    ctx.stats.hit("c04-roundtrips-checked");
                    if let Coder::V(c) = &mut self.coder {
                        let gb = c.get_binary().ok().map(|g| g.iter().map(|&w| w_to(w)).collect::<Vec<u64>>());
                        if gb.as_ref() != Some(&orig) {
                            viol!(ctx, "C04", "get-binary-does-not-restore-data", "orig={:x?} get_binary={:x?}", orig, gb);
                        }
                    }
                    if let Some(ib) = self.coder.binary() {
                        if ib.as_ref() != Some(&orig) {
                            viol!(ctx, "C04", "into-binary-does-not-restore-data", "orig={:x?} into_binary={:x?} (backend {:?})", orig, ib, self.t.backend);
                        }
                    }
                }
            }
        }
        Ok(())
    }

    /// ops = Dec* (possibly with reloads/inspections in between) followed by Enc* that mirror
    /// the decoded symbols in reverse with the same models
    fn is_bitsback_shape(&self) -> bool {
        let mut decs: Vec<usize> = Vec::new();
        let mut encs: Vec<(i64, usize)> = Vec::new();
        let mut phase = 0;
        for op in &self.t.ops {
            match op {
                AnsOp::Dec { m } if phase == 0 => decs.push(*m),
                AnsOp::Enc { sym, m } => {
                    phase = 1;
                    encs.push((*sym, *m));
                }
                AnsOp::EncBack { idx, m } => {
                    phase = 1;
                    match self.log.decoded.get(*idx) {
                        Some(s) => encs.push((*s, *m)),
                        None => return false,
                    }
                }
                AnsOp::Reload { .. } | AnsOp::Inspect { .. } | AnsOp::CloneSwap => {}
                _ => return false,
            }
        }
        if decs.len() != encs.len() || self.log.decoded.len() != decs.len() {
            return false;
        }
        let k = decs.len();
        (0..k).all(|i| encs[i].1 == decs[k - 1 - i] && encs[i].0 == self.log.decoded[k - 1 - i])
    }
}

fn tail(ws: &[u64]) -> Vec<u64> {
    if ws.len() > 12 {
        ws[ws.len() - 12..].to_vec()
    } else {
        ws.to_vec()
    }
}

// ---------------------------------------------------------------------------------------
// generation

#[derive(Clone, Debug)]
pub struct GenParams {
    pub max_ops: usize,
    pub mean_ops: usize,
    pub lib_share: u64,
    pub w_enc: u64,
    pub w_dec: u64,
    pub w_enc_batch: u64,
    pub w_dec_batch: u64,
    pub w_reload: u64,
    pub w_clone: u64,
    pub w_inspect: u64,
    pub w_snapshot: u64,
    pub w_seek: u64,
    pub w_badsym: u64,
    pub w_fault: u64,
    pub w_clear: u64,
    pub p_other_model_decode: u64, // per mille
    pub init_binary: u64,          // percent
    pub init_compressed: u64,      // percent
    pub backends: Vec<Backend>,
    pub small_words_bias: bool,
}

impl GenParams {
    pub fn for_prop(prop: &str, rng: &mut Rng, thorough: bool) -> Self {
        let mut g = GenParams {
            max_ops: if thorough && rng.chance(1, 50) { 2000 } else { 120 },
            mean_ops: 25,
            lib_share: 35,
            w_enc: 40,
            w_dec: 30,
            w_enc_batch: 6,
            w_dec_batch: 5,
            w_reload: 5,
            w_clone: 2,
            w_inspect: 6,
            w_snapshot: 0,
            w_seek: 0,
            w_badsym: 0,
            w_fault: 0,
            w_clear: if matches!(prop, "C04" | "C07" | "C09") { 0 } else { 1 },
            p_other_model_decode: 30,
            init_binary: 10,
            init_compressed: 15,
            backends: vec![Backend::Vec, Backend::Vec, Backend::Vec, Backend::Small, Backend::Cursor { cap: 4096 }, Backend::Store, Backend::RevCursor { cap: 4096 }, Backend::Cursor { cap: 5 }, Backend::RevCursor { cap: 4 }],
            small_words_bias: true,
        };
        // swarm: randomly disable / boost op kinds per run
        for w in [&mut g.w_enc_batch, &mut g.w_dec_batch, &mut g.w_reload, &mut g.w_clone, &mut g.w_inspect] {
            match rng.below(4) {
                0 => *w = 0,
                1 => *w *= 4,
                _ => {}
            }
        }
        match prop {
            "C04" => {
                g.init_binary = 100;
                g.backends = vec![Backend::Vec, Backend::Vec, Backend::Small, Backend::Cursor { cap: 4096 }, Backend::RevCursor { cap: 4096 }];
            }
            "C07" => {
                g.w_snapshot = 25;
                g.w_seek = 25;
                g.p_other_model_decode = 0;
                g.backends = vec![Backend::Vec, Backend::Vec, Backend::Small, Backend::Cursor { cap: 4096 }];
            }
            "C08" => {
                g.w_inspect = 60;
                g.backends = vec![Backend::Vec, Backend::Vec, Backend::Small, Backend::Cursor { cap: 4096 }, Backend::RevCursor { cap: 4096 }];
            }
            "C09" => {
                g.w_badsym = 25;
                g.w_fault = 12;
                g.w_dec = 10;
                g.backends = vec![Backend::Store, Backend::Store, Backend::Vec, Backend::Cursor { cap: 6 }, Backend::RevCursor { cap: 5 }];
            }
            "C12" => {
                g.w_dec = 0;
                g.w_dec_batch = 0;
                g.w_reload = 0;
                g.init_binary = 0;
                g.init_compressed = 0;
                g.mean_ops = if rng.chance(1, 4) { 400 } else { 40 };
                g.max_ops = 2000;
                g.backends = vec![Backend::Vec];
            }
            "C18" => {
                g.init_binary = 25;
            }
            _ => {}
        }
        g
    }
}

pub fn pick_symbol(rng: &mut Rng, b: &Built) -> i64 {
    let n = b.support.len();
    match rng.below(6) {
        0 => b.support[0],
        1 => b.support[n - 1],
        _ => b.support[rng.usize(n)],
    }
}

fn out_of_support_symbol(rng: &mut Rng, b: &Built) -> i64 {
    let lo = *b.support.iter().min().unwrap();
    let hi = *b.support.iter().max().unwrap();
    let s = b.support[rng.usize(b.support.len())];
    match rng.below(9) {
        0 => lo - 1,
        1 => hi + 1,
        2 => hi + 1 + rng.below(1000) as i64,
        3 => lo - 1 - rng.below(1000) as i64,
        // aliasing candidates s + j * 2^k
        4 => s + (1 + rng.below(3) as i64) * (1i64 << 8),
        5 => s + (1 + rng.below(3) as i64) * (1i64 << 16),
        6 => s + (1 + rng.below(3) as i64) * (1i64 << 32),
        7 => s.saturating_add(1i64 << b.p.min(61)),
        _ => s.saturating_add((1 + rng.below(3) as i64) * (1i64 << b.pb.min(60))),
    }
}

/// C12 workload: one-step look-ahead on the public state that picks, among a few candidate
/// symbols, the one whose encoding wastes most bits relative to its information content.
fn greedy_c12_ops<C: Ws>(rng: &mut Rng, built: &[Built], n: usize) -> Vec<AnsOp> {
    let mut ops = Vec::with_capacity(n);
    let mut state: C::S = num_traits::Zero::zero();
    for _ in 0..n {
        let m = rng.usize(built.len());
        let b = &built[m];
        if !b.can_encode() {
            continue;
        }
        let mut best: Option<(f64, i64, C::S)> = None;
        for _ in 0..12 {
            let sym = pick_symbol(rng, b);
            let Some((_, prob)) = b.lcp64(sym) else { continue };
            let mut c = AnsCoder::<C::W, C::S, Vec<C::W>>::from_raw_parts(Vec::new(), state);
            if <C::W as WordOps>::enc(&mut c, b, sym) != EncRes::Ok {
                continue;
            }
            let (bulk, st) = c.into_raw_parts();
            let x = s_to(st);
            let bits = (bulk.len() as u32 * C::WB) as f64 + if x == 0 { 0.0 } else { (x as f64).log2() };
            let info = b.p as f64 - (prob as f64).log2();
            let waste = bits - info;
            if best.as_ref().map_or(true, |(w, _, _)| waste > *w) {
                best = Some((waste, sym, st));
            }
        }
        if let Some((_, sym, st)) = best {
            // keep only the head: the look-ahead needs nothing else
            state = st;
            ops.push(AnsOp::Enc { sym, m });
        }
    }
    ops
}

pub fn generate(seed: u64, prop: &str, thorough: bool) -> AnsTrace {
    let mut root = Rng::new(seed);
    let mut rng = root.fork("workload");
    let mut bias = root.fork("bias");
    let mut frng = root.fork("faults");
    let g = GenParams::for_prop(prop, &mut bias, thorough);
    // small words make rare branches frequent
    let cfg = if g.small_words_bias && bias.chance(1, 2) { bias.usize(3) } else { bias.usize(CONFIGS.len()) };
    let (wb, sb) = CONFIGS[cfg];
    let menu = menu_for_word(wb);
    let n_models = 1 + rng.usize(4);
    let max_syms = if rng.chance(1, 8) { 300 } else { 2 + rng.usize(40) };
    let mut models = Vec::new();
    let mut built = Vec::new();
    for _ in 0..n_models {
        let (pb, p) = *rng.pick(&menu);
        let spec = gen_spec(&mut rng, pb, p, max_syms, g.lib_share);
        built.push(build_caught(&spec, Repr::Plain).expect("gen_spec returns buildable specs"));
        models.push(spec);
    }
    // C09: the models reach the coder in any representation that can encode (lazily
    // evaluated, generic encoder, non-contiguous, rebuilt from the symbol table, ...)
    let reprs: Vec<Repr> = if prop == "C09" && bias.chance(1, 2) {
        models.iter().map(|m| { let e = crate::skew::reprs_for(m).0; *bias.pick(&e) }).collect()
    } else {
        Vec::new()
    };
    let backend = bias.pick(&g.backends).clone();
    let init = {
        let r = rng.below(100);
        if r < g.init_binary {
            let n = if rng.chance(1, 6) { 0 } else { rng.len(4, 12) };
            Init::Binary((0..n).map(|_| rng.word(wb)).collect())
        } else if r < g.init_binary + g.init_compressed {
            let n = rng.len(4, 12);
            let mut ws: Vec<u64> = (0..n).map(|_| rng.word(wb)).collect();
            if let Some(l) = ws.last_mut() {
                if *l == 0 {
                    *l = 1 + rng.below((1u64 << wb.min(63)) - 1);
                }
            }
            Init::Compressed(ws)
        } else {
            Init::Empty
        }
    };
    let n_ops = rng.len(g.mean_ops, g.max_ops);
    let mut ops = Vec::new();
    // generator-side shadow stack of model indices / symbols
    let mut shadow: Vec<(i64, usize)> = Vec::new();
    let mut n_snaps = 0usize;

    if prop == "C12" && bias.chance(1, 2) {
        // a per-symbol loss far above the rounding term but far below one bit needs tens of
        // thousands of symbols to use up the constant of the bound
        let n = if bias.chance(1, if thorough { 10 } else { 40 }) { 20_000 + rng.usize(30_000) } else { n_ops.max(200).min(2000) };
        let ops = crate::for_cfg!(cfg, |C| greedy_c12_ops::<C>(&mut rng, &built, n));
        return AnsTrace { cfg, backend, init, models, ops, expect: None, expect_decoded: None, reprs: Vec::new() };
    }
    // (one C04 run in four is a free-form history on the raw-binary data instead: batch
    // forms, rejected symbols inside batches, reloads, views)
    if prop == "C04" && !bias.chance(1, 4) {
        // bits-back shape: decode k, (reload / inspect sprinkled in), encode back in reverse
        let k = rng.len(6, 60);
        let ms: Vec<usize> = (0..k).map(|_| rng.usize(n_models)).collect();
        if rng.chance(1, 3) {
            ops.push(AnsOp::Inspect { view: View::BinaryDecoders, n: 1 + rng.usize(8) });
        }
        for &m in &ms {
            ops.push(AnsOp::Dec { m });
            if rng.chance(1, 10) {
                ops.push(AnsOp::Reload { binary: rng.chance(1, 2) });
            }
            if rng.chance(1, 10) {
                ops.push(AnsOp::Inspect { view: View::GetBinary, n: 0 });
            }
        }
        // the encode half refers to the decoded symbols by index (the generator runs no library code)
        for i in (0..k).rev() {
            ops.push(AnsOp::EncBack { idx: i, m: ms[i] });
            if rng.chance(1, 12) {
                ops.push(AnsOp::Reload { binary: rng.chance(1, 2) });
            }
        }
        if rng.chance(1, 3) {
            ops.push(AnsOp::Inspect { view: View::BinaryDecoders, n: 1 + rng.usize(8) });
        }
        let _ = sb;
        return AnsTrace { cfg, backend, init, models, ops, expect: None, expect_decoded: None, reprs: Vec::new() };
    }

    let total = g.w_enc + g.w_dec + g.w_enc_batch + g.w_dec_batch + g.w_reload + g.w_clone + g.w_inspect + g.w_snapshot + g.w_seek + g.w_badsym + g.w_fault + g.w_clear;
    while ops.len() < n_ops {
        let mut r = rng.below(total);
        macro_rules! take {
            ($w:expr) => {{
                if r < $w {
                    true
                } else {
                    r -= $w;
                    false
                }
            }};
        }
        if take!(g.w_enc) {
            let m = rng.usize(n_models);
            if !built[m].can_encode() {
                continue;
            }
            let sym = pick_symbol(&mut rng, &built[m]);
            shadow.push((sym, m));
            ops.push(AnsOp::Enc { sym, m });
        } else if take!(g.w_dec) {
            let m = if rng.below(1000) < g.p_other_model_decode || shadow.is_empty() {
                if prop == "C07" && shadow.is_empty() {
                    continue;
                }
                shadow.clear();
                rng.usize(n_models)
            } else {
                shadow.pop().unwrap().1
            };
            ops.push(AnsOp::Dec { m });
        } else if take!(g.w_enc_batch) {
            let form = *rng.pick(&[EncForm::Symbols, EncForm::Try, EncForm::Iid, EncForm::SymbolsRev, EncForm::TryRev, EncForm::IidRev, EncForm::Loop]);
            let k = rng.len(3, 12);
            let m0 = rng.usize(n_models);
            if !built[m0].can_encode() {
                continue;
            }
            let iid = matches!(form, EncForm::Iid | EncForm::IidRev);
            let same: Vec<usize> = (0..n_models).filter(|&j| built[j].pb == built[m0].pb && built[j].p == built[m0].p && built[j].can_encode()).collect();
            let items: Vec<(i64, usize)> = (0..k)
                .map(|_| {
                    let m = if iid { m0 } else { *rng.pick(&same) };
                    (pick_symbol(&mut rng, &built[m]), m)
                })
                .collect();
            let fail_at = if matches!(form, EncForm::Try | EncForm::TryRev) && frng.chance(2, 3) { Some(frng.usize(k + 1)) } else { None };
            let mut items = items;
            let mut n_ok = fail_at.unwrap_or(k).min(k);
            // an impossible symbol in the middle of a batch (not for the fallible-iterator
            // forms, which have their own fault): the batch stops there
            if matches!(prop, "C09" | "C01" | "C04") && fail_at.is_none() && k > 0 && !matches!(form, EncForm::Try | EncForm::TryRev | EncForm::Loop) && frng.chance(1, 5) {
                let i = frng.usize(k);
                let bad = out_of_support_symbol(&mut frng, &built[items[i].1]);
                if !built[items[i].1].in_support(bad) {
                    items[i].0 = bad;
                    n_ok = i;
                }
            }
            for it in items.iter().take(n_ok) {
                shadow.push(*it);
            }
            ops.push(AnsOp::EncBatch { form, items, fail_at });
        } else if take!(g.w_dec_batch) {
            if shadow.is_empty() {
                continue;
            }
            let form = *rng.pick(&[DecForm::Symbols, DecForm::Try, DecForm::Iid, DecForm::Loop, DecForm::IidNth]);
            // pop a run of entries with identical (pb,p) (and identical model for iid)
            let (_, m0) = *shadow.last().unwrap();
            let mut ms = Vec::new();
            while let Some(&(_, m)) = shadow.last() {
                let ok = if matches!(form, DecForm::Iid | DecForm::IidNth) { m == m0 } else { built[m].pb == built[m0].pb && built[m].p == built[m0].p };
                if !ok || ms.len() >= 12 || (ms.len() >= 1 && rng.chance(1, 4)) {
                    break;
                }
                ms.push(m);
                shadow.pop();
            }
            let fail_at = if form == DecForm::Try && frng.chance(2, 3) { Some(frng.usize(ms.len() + 1)) } else { None };
            ops.push(AnsOp::DecBatch { form, ms, fail_at });
        } else if take!(g.w_reload) {
            ops.push(AnsOp::Reload { binary: false });
        } else if take!(g.w_clone) {
            ops.push(AnsOp::CloneSwap);
        } else if take!(g.w_inspect) {
            let view = *rng.pick(&[
                View::GetCompressed, View::GetCompressed, View::GetBinary, View::IterCompressed, View::AsDecoder,
                View::IntoDecoderClone, View::Slice, View::Reversed, View::RevIter, View::Queries, View::CloneDrop, View::BinaryDecoders,
            ]);
            ops.push(AnsOp::Inspect { view, n: rng.usize(6) });
        } else if take!(g.w_snapshot) {
            n_snaps += 1;
            ops.push(AnsOp::Snapshot);
        } else if take!(g.w_seek) {
            if frng.chance(1, 12) {
                ops.push(AnsOp::SeekBeyond { via: *rng.pick(&[SeekVia::AsSeekable, SeekVia::IntoSeekable, SeekVia::ConsumingVec]), extra: frng.usize(3) });
                continue;
            }
            if n_snaps == 0 {
                continue;
            }
            let via = *rng.pick(&[SeekVia::AsSeekable, SeekVia::AsSeekable, SeekVia::IntoSeekable, SeekVia::ConsumingVec, SeekVia::Reversed]);
            ops.push(AnsOp::Seek { via, snap: rng.usize(n_snaps), n: 1 + rng.usize(8) });
        } else if take!(g.w_badsym) {
            let m = rng.usize(n_models);
            if !built[m].can_encode() {
                continue;
            }
            let sym = out_of_support_symbol(&mut frng, &built[m]);
            if built[m].in_support(sym) {
                continue;
            }
            ops.push(AnsOp::BadSym { m, sym });
        } else if take!(g.w_clear) {
            ops.push(AnsOp::ClearCoder);
            shadow.clear();
        } else if take!(g.w_fault) {
            let f = match frng.below(4) {
                0 => FaultOp::Clear,
                1 => FaultOp::Room(frng.usize(3)),
                _ => FaultOp::WriteIn(frng.usize(3)),
            };
            ops.push(AnsOp::Fault(f));
        }
    }
    AnsTrace { cfg, backend, init, models, ops, expect: None, expect_decoded: None, reprs }
}
