//! World `poison`: fault kinds that exist only for C20 — buffers manipulated through the
//! accessors the API hands out (F-BUFMUT), corrupted float parameters (F-POISON), a
//! misbehaving user `Distribution` (F-BADCDF), out-of-range quantiles.  The only question
//! asked here is "error value or ordinary panic, never undefined behaviour".

use std::cell::Cell;

use constriction::backends::{Cursor, ReadWords, WriteWords};
use constriction::stream::model::{
    ContiguousCategoricalEntropyModel, DecoderModel, EncoderModel, IterableEntropyModel,
    LazyContiguousCategoricalEntropyModel, LeakyQuantizer, NonContiguousCategoricalDecoderModel,
    NonContiguousCategoricalEncoderModel, UniformModel,
};
use constriction::stream::stack::AnsCoder;
use constriction::stream::{Decode, Encode};
use constriction::{Queue, Stack};
use probability::distribution::{Distribution, Gaussian, Inverse};
use serde::{Deserialize, Serialize};

use crate::common::*;
use crate::rng::Rng;


/// JSON has no NaN / infinity: non-finite floats are written as strings so that replay files
/// reproduce poisoned parameters exactly.
mod fser {
    use serde::{Deserialize, Deserializer, Serialize, Serializer};
    #[derive(Serialize, Deserialize)]
    #[serde(untagged)]
    enum Repr {
        Num(f64),
        Str(String),
    }
    fn to(x: f64) -> Repr {
        if x.is_nan() { Repr::Str("NaN".into()) } else if x == f64::INFINITY { Repr::Str("inf".into()) } else if x == f64::NEG_INFINITY { Repr::Str("-inf".into()) } else if x == 0.0 && x.is_sign_negative() { Repr::Str("-0".into()) } else { Repr::Num(x) }
    }
    fn from(r: Repr) -> f64 {
        match r {
            Repr::Num(x) => x,
            Repr::Str(s) => match s.as_str() { "NaN" => f64::NAN, "inf" => f64::INFINITY, "-inf" => f64::NEG_INFINITY, "-0" => -0.0, _ => f64::NAN },
        }
    }
    pub mod one {
        use super::*;
        pub fn serialize<S: Serializer>(x: &f64, s: S) -> Result<S::Ok, S::Error> { to(*x).serialize(s) }
        pub fn deserialize<'de, D: Deserializer<'de>>(d: D) -> Result<f64, D::Error> { Ok(from(Repr::deserialize(d)?)) }
    }
    pub mod vec {
        use super::*;
        pub fn serialize<S: Serializer>(x: &Vec<f64>, s: S) -> Result<S::Ok, S::Error> { x.iter().map(|v| to(*v)).collect::<Vec<_>>().serialize(s) }
        pub fn deserialize<'de, D: Deserializer<'de>>(d: D) -> Result<Vec<f64>, D::Error> { Ok(Vec::<Repr>::deserialize(d)?.into_iter().map(from).collect()) }
    }
    pub mod opt {
        use super::*;
        pub fn serialize<S: Serializer>(x: &Option<f64>, s: S) -> Result<S::Ok, S::Error> { x.map(to).serialize(s) }
        pub fn deserialize<'de, D: Deserializer<'de>>(d: D) -> Result<Option<f64>, D::Error> { Ok(Option::<Repr>::deserialize(d)?.map(from)) }
    }
}

#[derive(Clone, Debug, Serialize, Deserialize, PartialEq)]
pub enum BufEdit {
    Truncate(usize),
    Clear,
    Replace(Vec<u64>),
    Push(u64),
}

#[derive(Clone, Debug, Serialize, Deserialize, PartialEq)]
pub enum BufUse {
    ReadStack(usize),
    ReadQueue(usize),
    Write(u64),
    ReversedWrite(u64),
    ReversedRead(usize),
    AnsDecode(usize),
    AnsEncode(usize),
    Seek(usize),
}

#[derive(Clone, Copy, Debug, Serialize, Deserialize, PartialEq, Eq, Hash)]
pub enum FloatCtor {
    FastF32,
    FastF64,
    PerfectF64,
    PerfectF32,
    LazyF32,
    LazyF64,
    NonContigEncFast,
    NonContigDecFast,
    NonContigDecPerfect,
}

#[derive(Clone, Copy, Debug, Serialize, Deserialize, PartialEq, Eq, Hash)]
pub enum TableCtor {
    ContigFixed,
    LookupContigFixed,
    NonContigEncFixed,
    NonContigDecFixed,
    LookupNonContigFixed,
    LookupNonContigFast,
    LookupNonContigPerfect,
    NonContigEncFast,
    NonContigDecFast,
    NonContigEncPerfect,
    NonContigDecPerfect,
}

#[derive(Clone, Debug, Serialize, Deserialize, PartialEq)]
pub enum BadCdf {
    /// well-behaved Gaussian(mean, std)
    None,
    /// returns this value at CDF call number `at` (0-based), Gaussian otherwise
    ValueAt { at: usize, #[serde(with = "fser::one")] value: f64 },
    /// CDF decreases: returns 1 - gaussian
    Decreasing,
    /// always this constant
    Constant(#[serde(with = "fser::one")] f64),
    /// inverse hint returns this
    InverseOnly(#[serde(with = "fser::one")] f64),
}

#[derive(Clone, Debug, Serialize, Deserialize, PartialEq)]
pub enum PoisonTrace {
    BufMut { word: u8, init: Vec<u64>, pos: usize, edit: BufEdit, uses: Vec<BufUse> },
    /// precision index selects (Probability, PRECISION) from a small fixed menu
    Floats { ctor: FloatCtor, pp: usize, #[serde(with = "fser::vec")] probs: Vec<f64>, #[serde(with = "fser::opt")] normalization: Option<f64>, queries: Vec<u64> },
    Cdf { pp: usize, mean: f64, std: f64, lo: i32, hi: i32, bad: BadCdf, queries: Vec<i64>, table: bool },
    /// quantile_function with out-of-range quantiles on valid models
    Quantile { pp: usize, kind: u8, n: usize, quantiles: Vec<u64> },
    /// fixed-point tables and symbol lists of any shape (empty, zeros, oversized, wrong total,
    /// mismatched symbol / probability counts) into every table constructor, then *valid*
    /// queries on whatever model is returned
    Tables { ctor: TableCtor, pp: usize, probs: Vec<u64>, #[serde(with = "fser::vec")] fprobs: Vec<f64>, n_syms: usize, infer_last: bool, queries: Vec<u64> },
    /// a *valid* (if extreme) model spec, built and swept without any guard: an overflow
    /// panic here is arithmetic that is only correct because release builds wrap
    ValidModel { spec: crate::model::ModelSpec },
    /// coders put together with the safe, public `from_raw_parts` constructors from parts
    /// that are valid values of their (public) types but that no coder would ever reach:
    /// huge held-back counters, intervals anywhere, points and head states of any value
    RawParts { cfg: usize, which: RawWhich, bulk: Vec<u64>, cap: usize, lower: (u64, u64), range: (u64, u64), point: (u64, u64), inverted: Option<(u64, u64)>, p: u8, probs: Vec<u64>, uses: Vec<RawUse> },
}

#[derive(Clone, Copy, Debug, Serialize, Deserialize, PartialEq)]
pub enum RawWhich {
    /// `RangeEncoder::from_raw_parts` over a bounded cursor (a runaway loop ends at the capacity)
    RangeEncoderBounded,
    /// `RangeEncoder::from_raw_parts` over a `Vec` (small counters only)
    RangeEncoderVec,
    RangeDecoder,
    Ans,
}

#[derive(Clone, Copy, Debug, Serialize, Deserialize, PartialEq)]
pub enum RawUse {
    Enc(usize),
    Dec,
    /// `get_compressed()` / `get_binary()` and drop the guard
    View,
    Queries,
    Finish,
}

struct BadDist {
    g: Gaussian,
    bad: BadCdf,
    calls: Cell<usize>,
}
impl Distribution for BadDist {
    type Value = f64;
    fn distribution(&self, x: f64) -> f64 {
        let k = self.calls.get();
        self.calls.set(k + 1);
        match &self.bad {
            BadCdf::None | BadCdf::InverseOnly(_) => self.g.distribution(x),
            BadCdf::ValueAt { at, value } => if k == *at { *value } else { self.g.distribution(x) },
            BadCdf::Decreasing => 1.0 - self.g.distribution(x),
            BadCdf::Constant(c) => *c,
        }
    }
}
impl Inverse for BadDist {
    fn inverse(&self, p: f64) -> f64 {
        match &self.bad {
            BadCdf::InverseOnly(v) => *v,
            _ => self.g.inverse(p.clamp(1e-12, 1.0 - 1e-12)),
        }
    }
}

pub fn exec(t: &PoisonTrace, ctx: &mut Ctx) -> Result<(), Violation> {
    // every call below may legitimately return Err or panic; ordinary panics are caught one
    // level up *per call* here so that the rest of the program still runs
    match t {
        PoisonTrace::BufMut { word, init, pos, edit, uses } => match word {
            8 => bufmut::<u8>(init, *pos, edit, uses, ctx),
            16 => bufmut::<u16>(init, *pos, edit, uses, ctx),
            32 => bufmut::<u32>(init, *pos, edit, uses, ctx),
            _ => bufmut::<u64>(init, *pos, edit, uses, ctx),
        },
        PoisonTrace::Floats { ctor, pp, probs, normalization, queries } => {
            ctx.stats.hit("fault-poisoned-floats");
            ctx.stats.hit(&format!("ctor-{:?}", ctor));
            match pp % 5 {
                0 => floats_u8_8(*ctor, probs, *normalization, queries, ctx),
                1 => floats_u16_12(*ctor, probs, *normalization, queries, ctx),
                2 => floats_u16_16(*ctor, probs, *normalization, queries, ctx),
                3 => floats_u32_24(*ctor, probs, *normalization, queries, ctx),
                _ => floats_u32_32(*ctor, probs, *normalization, queries, ctx),
            }
            Ok(())
        }
        PoisonTrace::Cdf { pp, mean, std, lo, hi, bad, queries, table } => {
            ctx.stats.hit("fault-bad-cdf");
            ctx.stats.hit(&format!("badcdf-{}", match bad { BadCdf::None => "none", BadCdf::ValueAt { .. } => "value-at", BadCdf::Decreasing => "decreasing", BadCdf::Constant(_) => "constant", BadCdf::InverseOnly(_) => "inverse-only" }));
            match pp % 4 {
                0 => cdf_u8_8(*mean, *std, *lo, *hi, bad, queries, *table, ctx),
                1 => cdf_u16_12(*mean, *std, *lo, *hi, bad, queries, *table, ctx),
                2 => cdf_u32_24(*mean, *std, *lo, *hi, bad, queries, *table, ctx),
                _ => cdf_u32_32(*mean, *std, *lo, *hi, bad, queries, *table, ctx),
            }
            Ok(())
        }
        PoisonTrace::Tables { ctor, pp, probs, fprobs, n_syms, infer_last, queries } => {
            ctx.stats.hit("fault-malformed-table");
            ctx.stats.hit(&format!("tablector-{:?}", ctor));
            match pp % 3 {
                0 => tables_u8_8(*ctor, probs, fprobs, *n_syms, *infer_last, queries, ctx),
                1 => tables_u16_12(*ctor, probs, fprobs, *n_syms, *infer_last, queries, ctx),
                _ => tables_u16_16(*ctor, probs, fprobs, *n_syms, *infer_last, queries, ctx),
            }
            Ok(())
        }
        PoisonTrace::ValidModel { spec } => {
            ctx.stats.hit("valid-extreme-model");
            if !crate::model::spec_plausible(spec) {
                return Ok(());
            }
            if let Some(b) = crate::model::build(spec, crate::model::Repr::Plain) {
                let mut total: u128 = 0;
                for s in b.support.iter() {
                    if let Some((_, p)) = b.lcp64(*s) { total += p as u128; }
                }
                let _ = total;
                for k in 0..8u64 {
                    let q = k.wrapping_mul(0x9E37_79B9_7F4A_7C15) % (1u64 << b.p.min(63));
                    let _ = b.quant64(q);
                }
                ctx.stats.hit("valid-extreme-model-built");
            }
            Ok(())
        }
        PoisonTrace::RawParts { cfg, .. } => {
            ctx.stats.hit("fault-hostile-raw-parts");
            crate::for_cfg!(*cfg, |C| rawparts::<C>(t, ctx));
            Ok(())
        }
        PoisonTrace::Quantile { pp, kind, n, quantiles } => {
            ctx.stats.hit("fault-out-of-range-quantile");
            match pp % 3 {
                0 => quantile_u8_5(*kind, *n, quantiles, ctx),
                1 => quantile_u16_12(*kind, *n, quantiles, ctx),
                _ => quantile_u32_24(*kind, *n, quantiles, ctx),
            }
            Ok(())
        }
    }
}

/// run one call; an ordinary panic is the allowed failure form
fn guarded<R>(ctx: &mut Ctx, what: &str, f: impl FnOnce() -> R) -> Option<R> {
    match std::panic::catch_unwind(std::panic::AssertUnwindSafe(f)) {
        Ok(r) => Some(r),
        Err(_) => {
            ctx.stats.hit(&format!("allowed-panic-{}", what));
            None
        }
    }
}

fn pair(x: (u64, u64)) -> u128 {
    ((x.0 as u128) << 64) | x.1 as u128
}

fn rawparts<C: Ws>(t: &PoisonTrace, ctx: &mut Ctx) {
    use crate::dynops::WordOps;
    use constriction::stream::queue::{EncoderSituation, RangeCoderState, RangeDecoder, RangeEncoder};
    let PoisonTrace::RawParts { which, bulk, cap, lower, range, point, inverted, p, probs, uses, .. } = t else { return };
    let pb = match C::WB { 8 => 8u8, 16 => 16, 32 => 32, _ => 64 };
    if !crate::model::MENU.contains(&(pb, *p)) || probs.iter().map(|&x| x as u128).sum::<u128>() != 1u128 << *p || probs.iter().any(|&x| x == 0) || probs.len() < 2 {
        return;
    }
    let spec = crate::model::ModelSpec { pb, p: *p, kind: crate::model::Kind::Table { first: 0, probs: probs.clone() } };
    let Some(b) = crate::model::build_caught(&spec, crate::model::Repr::Plain) else { return };
    let words: Vec<C::W> = bulk.iter().map(|&w| w_from(w)).collect();
    let n_syms = probs.len();
    ctx.stats.hit(&format!("rawparts-{:?}", which));
    let state = RangeCoderState::<C::W, C::S>::new(s_from(pair(*lower)), s_from(pair(*range)));
    let sit = match inverted {
        None => EncoderSituation::Normal,
        Some((n, w)) => EncoderSituation::Inverted(std::num::NonZeroUsize::new(*n as usize).unwrap_or(std::num::NonZeroUsize::MAX), w_from::<C::W>(*w)),
    };
    match which {
        RawWhich::RangeEncoderBounded => {
            let Ok(state) = state else { return };
            let len = words.len();
            let mut buf = words;
            buf.resize(len + cap, C::W::default());
            let cur = Cursor::new_at_pos(buf, len).expect("in range");
            guarded(ctx, "raw-range-encoder", move || {
                let mut e = RangeEncoder::<C::W, C::S, _>::from_raw_parts(cur, state, sit);
                for u in uses {
                    match u {
                        RawUse::Enc(s) => { let _ = <C::W as WordOps>::enc(&mut e, &b, (*s % n_syms) as i64); }
                        RawUse::Queries => { let _ = e.maybe_full(); }
                        RawUse::Finish => { let _ = e.clone().into_compressed(); }
                        _ => {}
                    }
                }
                let _ = e.into_compressed();
            });
        }
        RawWhich::RangeEncoderVec => {
            let Ok(state) = state else { return };
            // an unbounded sink: keep the held-back counter small, sealing writes that many words
            let sit = match sit {
                EncoderSituation::Inverted(n, w) => EncoderSituation::Inverted(std::num::NonZeroUsize::new(1 + n.get() % 64).expect("nonzero"), w),
                s => s,
            };
            guarded(ctx, "raw-range-encoder-vec", move || {
                let mut e = RangeEncoder::<C::W, C::S>::from_raw_parts(words, state, sit);
                for u in uses {
                    match u {
                        RawUse::Enc(s) => { let _ = <C::W as WordOps>::enc(&mut e, &b, (*s % n_syms) as i64); }
                        RawUse::Queries => { let _ = (e.num_words(), e.num_bits(), e.is_empty()); }
                        RawUse::View => { let _ = e.get_compressed().len(); }
                        RawUse::Dec => { let mut d = e.decoder(); let _ = <C::W as WordOps>::dec(&mut d, &b); let _ = d.maybe_exhausted(); }
                        RawUse::Finish => { let _ = e.clone().into_compressed(); }
                    }
                }
                let _ = e.into_decoder().map(|mut d| <C::W as WordOps>::dec(&mut d, &b));
            });
        }
        RawWhich::RangeDecoder => {
            let Ok(state) = state else { return };
            let pos = (*cap).min(words.len());
            let cur = Cursor::new_at_pos(words, pos).expect("in range");
            let point: C::S = s_from(pair(*point));
            guarded(ctx, "raw-range-decoder", move || {
                let Ok(mut d) = RangeDecoder::<C::W, C::S, _>::from_raw_parts(cur, state, point) else { return };
                for u in uses {
                    match u {
                        RawUse::Dec | RawUse::Enc(_) => { let _ = <C::W as WordOps>::dec(&mut d, &b); }
                        RawUse::Queries => { let _ = d.maybe_exhausted(); }
                        RawUse::View | RawUse::Finish => { let (bulk, st, pt) = d.into_raw_parts(); d = match RangeDecoder::from_raw_parts(bulk, st, pt) { Ok(d) => d, Err(_) => return }; }
                    }
                }
            });
        }
        RawWhich::Ans => {
            let st: C::S = s_from(pair(*lower));
            guarded(ctx, "raw-ans", move || {
                let mut c = AnsCoder::<C::W, C::S, Vec<C::W>>::from_raw_parts(words, st);
                for u in uses {
                    match u {
                        RawUse::Enc(s) => { let _ = <C::W as WordOps>::enc(&mut c, &b, (*s % n_syms) as i64); }
                        RawUse::Dec => { let _ = <C::W as WordOps>::dec(&mut c, &b); }
                        RawUse::Queries => { let _ = (c.num_words(), c.num_bits(), c.num_valid_bits(), c.is_empty()); }
                        RawUse::View => {
                            let _ = c.get_compressed().map(|g| g.len());
                            let _ = c.get_binary().map(|g| g.len());
                            let _ = c.iter_compressed().count();
                        }
                        RawUse::Finish => {
                            let _ = c.clone().into_compressed();
                            let _ = c.clone().into_binary();
                        }
                    }
                }
            });
        }
    }
}

fn bufmut<W: constriction::BitArray + Default>(init: &[u64], pos: usize, edit: &BufEdit, uses: &[BufUse], ctx: &mut Ctx) -> Result<(), Violation>
where
    W: Into<u64>,
{
    ctx.stats.hit("fault-buf-mut");
    let buf: Vec<W> = init.iter().map(|&w| w_from(w)).collect();
    let pos = pos.min(buf.len());
    let mut c = Cursor::new_at_pos(buf, pos).expect("in range");
    // the accessor the API hands out
    match edit {
        BufEdit::Truncate(k) => c.buf_mut().truncate(*k),
        BufEdit::Clear => c.buf_mut().clear(),
        BufEdit::Replace(v) => *c.buf_mut() = v.iter().map(|&w| w_from(w)).collect(),
        BufEdit::Push(w) => c.buf_mut().push(w_from(*w)),
    }
    if c.buf().len() < pos {
        ctx.stats.hit("probe-pos-beyond-shrunk-buffer");
    }
    for u in uses {
        match u {
            BufUse::ReadStack(n) => { guarded(ctx, "read-stack", || for _ in 0..*n { let _ = ReadWords::<W, Stack>::read(&mut c); }); }
            BufUse::ReadQueue(n) => { guarded(ctx, "read-queue", || for _ in 0..*n { let _ = ReadWords::<W, Queue>::read(&mut c); }); }
            BufUse::Write(w) => { guarded(ctx, "write", || { let _ = c.write(w_from(*w)); }); }
            BufUse::Seek(p) => { guarded(ctx, "seek", || { let _ = constriction::Seek::seek(&mut c, *p); }); }
            BufUse::ReversedWrite(w) => {
                let c2 = c.clone();
                guarded(ctx, "reversed-write", move || { let mut r = c2.into_reversed(); let _ = r.write(w_from(*w)); let _ = r.write(w_from(*w)); });
            }
            BufUse::ReversedRead(n) => {
                let c2 = c.clone();
                guarded(ctx, "reversed-read", move || { let mut r = c2.into_reversed(); for _ in 0..*n { let _ = ReadWords::<W, Queue>::read(&mut r); } });
            }
            BufUse::AnsDecode(n) | BufUse::AnsEncode(n) => {
                // only for u32 words: an ANS coder over the manipulated cursor
                let enc = matches!(u, BufUse::AnsEncode(_));
                bufmut_ans(&c, *n, enc, ctx);
            }
        }
    }
    Ok(())
}

fn bufmut_ans<W: constriction::BitArray + Default + Into<u64>>(c: &Cursor<W, Vec<W>>, n: usize, enc: bool, ctx: &mut Ctx) {
    // rebuild a u32 cursor with the same (buffer length, position) relation and run the coder
    let (buf, pos) = c.clone().into_buf_and_pos();
    let words: Vec<u32> = buf.iter().map(|w| { let x: u64 = (*w).into(); x as u32 | 1 }).collect();
    // reproduce the broken invariant through the same public route
    let full_len = pos.max(words.len());
    let mut padded = words.clone();
    padded.resize(full_len, 1);
    let mut cur = Cursor::new_at_pos(padded, pos).expect("in range");
    cur.buf_mut().truncate(words.len());
    let model = UniformModel::<u32, 24>::new(10);
    guarded(ctx, "ans-over-cursor", move || {
        let mut coder = AnsCoder::<u32, u64, _>::from_raw_parts(cur, 1u64 << 40);
        for i in 0..n {
            if enc { let _ = coder.encode_symbol(i % 10, model); } else { let _ = coder.decode_symbol(model); }
        }
    });
}

macro_rules! floats_impl {
    ($name:ident, $Prob:ty, $P:literal) => {
        fn $name(ctor: FloatCtor, probs: &[f64], normalization: Option<f64>, queries: &[u64], ctx: &mut Ctx) {
    let f32s: Vec<f32> = probs.iter().map(|&x| x as f32).collect();
    let n = probs.len();
    let syms: Vec<usize> = (0..n).collect();
    macro_rules! use_both {
        ($m:expr) => {{
            if let Some(Ok(m)) = $m {
                ctx.stats.hit("poisoned-model-accepted");
                for q in queries {
                    guarded(ctx, "lcp", || { let _ = m.left_cumulative_and_probability((*q as usize) % (n + 2)); });
                    guarded(ctx, "quantile", || { let _ = m.quantile_function(crate::model::from_u64::<$Prob>(*q % (1u64 << $P.min(63)))); });
                }
            } else {
                ctx.stats.hit("poisoned-input-rejected");
            }
        }};
    }
    match ctor {
        FloatCtor::FastF32 => {
            let m = guarded(ctx, "ctor", || ContiguousCategoricalEntropyModel::<$Prob, Vec<$Prob>, $P>::from_floating_point_probabilities_fast(&f32s, normalization.map(|x| x as f32)));
            if let Some(Ok(m)) = &m { guarded(ctx, "symbol-table", || { let _ = m.symbol_table().count(); }); }
            use_both!(m);
        }
        FloatCtor::FastF64 => {
            let m = guarded(ctx, "ctor", || ContiguousCategoricalEntropyModel::<$Prob, Vec<$Prob>, $P>::from_floating_point_probabilities_fast(probs, normalization));
            if let Some(Ok(m)) = &m { guarded(ctx, "symbol-table", || { let _ = m.symbol_table().count(); }); }
            use_both!(m);
        }
        FloatCtor::PerfectF64 => {
            let m = guarded(ctx, "ctor", || ContiguousCategoricalEntropyModel::<$Prob, Vec<$Prob>, $P>::from_floating_point_probabilities_perfect(probs));
            use_both!(m);
        }
        FloatCtor::PerfectF32 => {
            let m = guarded(ctx, "ctor", || ContiguousCategoricalEntropyModel::<$Prob, Vec<$Prob>, $P>::from_floating_point_probabilities_perfect(&f32s));
            use_both!(m);
        }
        FloatCtor::LazyF32 => {
            let m = guarded(ctx, "ctor", || LazyContiguousCategoricalEntropyModel::<$Prob, f32, Vec<f32>, $P>::from_floating_point_probabilities_fast(f32s.clone(), normalization.map(|x| x as f32)));
            use_both!(m);
        }
        FloatCtor::LazyF64 => {
            let m = guarded(ctx, "ctor", || LazyContiguousCategoricalEntropyModel::<$Prob, f64, Vec<f64>, $P>::from_floating_point_probabilities_fast(probs.to_vec(), normalization));
            use_both!(m);
        }
        FloatCtor::NonContigEncFast => {
            let m = guarded(ctx, "ctor", || NonContiguousCategoricalEncoderModel::<usize, $Prob, $P>::from_symbols_and_floating_point_probabilities_fast(syms.iter().cloned(), probs, normalization));
            if let Some(Ok(m)) = m {
                ctx.stats.hit("poisoned-model-accepted");
                for q in queries { guarded(ctx, "lcp", || { let _ = m.left_cumulative_and_probability((*q as usize) % (n + 2)); }); }
            } else { ctx.stats.hit("poisoned-input-rejected"); }
        }
        FloatCtor::NonContigDecFast | FloatCtor::NonContigDecPerfect => {
            let m = guarded(ctx, "ctor", || if ctor == FloatCtor::NonContigDecFast {
                NonContiguousCategoricalDecoderModel::<usize, $Prob, Vec<($Prob, usize)>, $P>::from_symbols_and_floating_point_probabilities_fast(syms.iter().cloned(), probs, normalization)
            } else {
                NonContiguousCategoricalDecoderModel::<usize, $Prob, Vec<($Prob, usize)>, $P>::from_symbols_and_floating_point_probabilities_perfect(syms.iter().cloned(), probs)
            });
            if let Some(Ok(m)) = m {
                ctx.stats.hit("poisoned-model-accepted");
                for q in queries { guarded(ctx, "quantile", || { let _ = m.quantile_function(crate::model::from_u64::<$Prob>(*q % (1u64 << $P.min(63)))); }); }
                guarded(ctx, "symbol-table", || { let _ = m.symbol_table().count(); });
            } else { ctx.stats.hit("poisoned-input-rejected"); }
        }
    }
}
    };
}
floats_impl!(floats_u8_8, u8, 8);
floats_impl!(floats_u16_12, u16, 12);
floats_impl!(floats_u16_16, u16, 16);
floats_impl!(floats_u32_24, u32, 24);
floats_impl!(floats_u32_32, u32, 32);


macro_rules! tables_impl {
    ($name:ident, $Prob:ty, $P:literal) => {
        #[allow(clippy::too_many_arguments)]
        fn $name(ctor: TableCtor, probs: &[u64], fprobs: &[f64], n_syms: usize, infer_last: bool, queries: &[u64], ctx: &mut Ctx) {
            use constriction::stream::model::{ContiguousLookupDecoderModel, NonContiguousLookupDecoderModel};
            let pr: Vec<$Prob> = probs.iter().map(|&x| crate::model::from_u64::<$Prob>(x)).collect();
            let syms: Vec<usize> = (0..n_syms).map(|i| i * 3 + 1).collect();
            let qs: Vec<$Prob> = queries.iter().map(|q| crate::model::from_u64::<$Prob>(*q % (1u64 << $P))).collect();
            macro_rules! dec_queries {
                ($m:expr) => {{
                    match $m {
                        Some(Ok(m)) => {
                            ctx.stats.hit("malformed-table-accepted");
                            for q in &qs { guarded(ctx, "quantile", || { let _ = m.quantile_function(*q); }); }
                        }
                        _ => ctx.stats.hit("malformed-table-rejected"),
                    }
                }};
            }
            macro_rules! enc_queries {
                ($m:expr) => {{
                    match $m {
                        Some(Ok(m)) => {
                            ctx.stats.hit("malformed-table-accepted");
                            for q in queries { guarded(ctx, "lcp", || { let _ = m.left_cumulative_and_probability((*q % 40) as usize); }); }
                        }
                        _ => ctx.stats.hit("malformed-table-rejected"),
                    }
                }};
            }
            match ctor {
                TableCtor::ContigFixed => {
                    let m = guarded(ctx, "ctor", || ContiguousCategoricalEntropyModel::<$Prob, Vec<$Prob>, $P>::from_nonzero_fixed_point_probabilities(pr.iter(), infer_last));
                    if let Some(Ok(m)) = &m { for q in queries { guarded(ctx, "lcp", || { let _ = m.left_cumulative_and_probability((*q % 40) as usize); }); } }
                    dec_queries!(m);
                }
                TableCtor::LookupContigFixed => {
                    let m = guarded(ctx, "ctor", || ContiguousLookupDecoderModel::<$Prob, Vec<$Prob>, Box<[$Prob]>, $P>::from_nonzero_fixed_point_probabilities(pr.iter(), infer_last));
                    dec_queries!(m);
                }
                TableCtor::NonContigEncFixed => {
                    let m = guarded(ctx, "ctor", || NonContiguousCategoricalEncoderModel::<usize, $Prob, $P>::from_symbols_and_nonzero_fixed_point_probabilities(syms.iter().cloned(), pr.iter(), infer_last));
                    enc_queries!(m);
                }
                TableCtor::NonContigDecFixed => {
                    let m = guarded(ctx, "ctor", || NonContiguousCategoricalDecoderModel::<usize, $Prob, Vec<($Prob, usize)>, $P>::from_symbols_and_nonzero_fixed_point_probabilities(syms.iter().cloned(), pr.iter(), infer_last));
                    dec_queries!(m);
                }
                TableCtor::LookupNonContigFixed => {
                    let m = guarded(ctx, "ctor", || NonContiguousLookupDecoderModel::<usize, $Prob, Vec<($Prob, usize)>, Box<[$Prob]>, $P>::from_symbols_and_nonzero_fixed_point_probabilities(syms.iter().cloned(), pr.iter(), infer_last));
                    dec_queries!(m);
                }
                TableCtor::LookupNonContigFast => {
                    let m = guarded(ctx, "ctor", || NonContiguousLookupDecoderModel::<usize, $Prob, Vec<($Prob, usize)>, Box<[$Prob]>, $P>::from_symbols_and_floating_point_probabilities_fast(syms.iter().cloned(), fprobs, None));
                    dec_queries!(m);
                }
                TableCtor::LookupNonContigPerfect => {
                    let m = guarded(ctx, "ctor", || NonContiguousLookupDecoderModel::<usize, $Prob, Vec<($Prob, usize)>, Box<[$Prob]>, $P>::from_symbols_and_floating_point_probabilities_perfect(syms.iter().cloned(), fprobs));
                    dec_queries!(m);
                }
                TableCtor::NonContigEncFast => {
                    let m = guarded(ctx, "ctor", || NonContiguousCategoricalEncoderModel::<usize, $Prob, $P>::from_symbols_and_floating_point_probabilities_fast(syms.iter().cloned(), fprobs, None));
                    enc_queries!(m);
                }
                TableCtor::NonContigDecFast => {
                    let m = guarded(ctx, "ctor", || NonContiguousCategoricalDecoderModel::<usize, $Prob, Vec<($Prob, usize)>, $P>::from_symbols_and_floating_point_probabilities_fast(syms.iter().cloned(), fprobs, None));
                    dec_queries!(m);
                }
                TableCtor::NonContigEncPerfect => {
                    let m = guarded(ctx, "ctor", || NonContiguousCategoricalEncoderModel::<usize, $Prob, $P>::from_symbols_and_floating_point_probabilities_perfect(syms.iter().cloned(), fprobs));
                    enc_queries!(m);
                }
                TableCtor::NonContigDecPerfect => {
                    let m = guarded(ctx, "ctor", || NonContiguousCategoricalDecoderModel::<usize, $Prob, Vec<($Prob, usize)>, $P>::from_symbols_and_floating_point_probabilities_perfect(syms.iter().cloned(), fprobs));
                    dec_queries!(m);
                }
            }
        }
    };
}
tables_impl!(tables_u8_8, u8, 8);
tables_impl!(tables_u16_12, u16, 12);
tables_impl!(tables_u16_16, u16, 16);

macro_rules! cdf_impl {
    ($name:ident, $Prob:ty, $P:literal) => {
        #[allow(clippy::too_many_arguments)]
        fn $name(mean: f64, std: f64, lo: i32, hi: i32, bad: &BadCdf, queries: &[i64], table: bool, ctx: &mut Ctx) {
    let Some(q) = guarded(ctx, "quantizer-new", || LeakyQuantizer::<f64, i32, $Prob, $P>::new(lo..=hi)) else { return };
    let d = BadDist { g: Gaussian::new(mean, std.max(1e-9)), bad: bad.clone(), calls: Cell::new(0) };
    let m = q.quantize(d);
    for s in queries {
        guarded(ctx, "lcp", || { let _ = m.left_cumulative_and_probability(*s as i32); });
        let qq: u64 = (*s as u64).wrapping_mul(0x9E37_79B9) % (1u64 << $P.min(63));
        guarded(ctx, "quantile", || { let _ = m.quantile_function(crate::model::from_u64::<$Prob>(qq)); });
    }
    if table {
        guarded(ctx, "symbol-table", || { let _ = m.symbol_table().take(100_000).count(); });
    }
}
    };
}
cdf_impl!(cdf_u8_8, u8, 8);
cdf_impl!(cdf_u16_12, u16, 12);
cdf_impl!(cdf_u32_24, u32, 24);
cdf_impl!(cdf_u32_32, u32, 32);

macro_rules! quantile_impl {
    ($name:ident, $Prob:ty, $P:literal) => {
        fn $name(kind: u8, n: usize, quantiles: &[u64], ctx: &mut Ctx) {
    let n = n.clamp(2, (1usize << $P.min(20)) - 2);
    let probs: Vec<f64> = (0..n).map(|i| 1.0 + (i % 7) as f64).collect();
    for q in quantiles {
        let qv = crate::model::from_u64::<$Prob>(*q);
        match kind % 4 {
            0 => { let m = UniformModel::<$Prob, $P>::new(n); guarded(ctx, "quantile", || { let _ = m.quantile_function(qv); }); }
            1 => { if let Ok(m) = ContiguousCategoricalEntropyModel::<$Prob, Vec<$Prob>, $P>::from_floating_point_probabilities_fast(&probs, None) { guarded(ctx, "quantile", || { let _ = m.quantile_function(qv); }); } }
            2 => { if let Ok(m) = LazyContiguousCategoricalEntropyModel::<$Prob, f64, Vec<f64>, $P>::from_floating_point_probabilities_fast(probs.clone(), None) { guarded(ctx, "quantile", || { let _ = m.quantile_function(qv); }); } }
            _ => {
                let hi = (n as i32 - 1).min(200);
                let m = LeakyQuantizer::<f64, i32, $Prob, $P>::new(0..=hi.max(1)).quantize(Gaussian::new(3.0, 5.0));
                guarded(ctx, "quantile", || { let _ = m.quantile_function(qv); });
            }
        }
    }
}
    };
}
quantile_impl!(quantile_u8_5, u8, 5);
quantile_impl!(quantile_u16_12, u16, 12);
quantile_impl!(quantile_u32_24, u32, 24);

// ---------------------------------------------------------------------------------------

fn poison_value(rng: &mut Rng) -> f64 {
    match rng.below(12) {
        0 => f64::NAN,
        1 => f64::INFINITY,
        2 => f64::NEG_INFINITY,
        3 => -rng.f64(),
        4 => -1e-7,
        5 => 5e-324,
        6 => 1e300,
        7 => f64::MAX,
        8 => 0.0,
        9 => -0.0,
        _ => rng.f64(),
    }
}

pub fn generate(seed: u64, _prop: &str, _thorough: bool) -> PoisonTrace {
    let mut root = Rng::new(seed);
    let mut rng = root.fork("faults");
    match rng.below(18) {
        15 | 16 | 17 => {
            let cfg = if rng.chance(1, 2) { 0 } else { rng.usize(CONFIGS.len()) };
            let (wb, sb) = CONFIGS[cfg];
            let pb = wb as u8;
            let ps: Vec<u8> = crate::model::MENU.iter().filter(|(b, _)| *b == pb).map(|(_, p)| *p).collect();
            let p = *rng.pick(&ps);
            let total: u128 = 1u128 << p;
            // a small table with a fat middle: symbols that keep an interval astride the wrap point
            let probs: Vec<u64> = if total >= 4 && rng.chance(2, 3) {
                let q = (total / 4) as u64;
                vec![q, (total - 2 * q as u128) as u64, q]
            } else if total >= 2 {
                let a = 1 + rng.below((total - 1).min(u64::MAX as u128) as u64);
                vec![a, (total - a as u128) as u64]
            } else {
                vec![1, 1]
            };
            let mask: u128 = if sb >= 128 { u128::MAX } else { (1u128 << sb) - 1 };
            let thr: u128 = 1u128 << (sb - wb);
            let any = |rng: &mut Rng| -> u128 { (((rng.next_u64() as u128) << 64) | rng.next_u64() as u128) & mask };
            // ranges: just above the renormalisation threshold, anywhere, or invalid (too small)
            let range = match rng.below(5) {
                0 | 1 => thr + (rng.next_u64() as u128 % (3 * thr)).min(mask - thr),
                2 => any(&mut rng) | thr,
                3 => mask,
                _ => any(&mut rng) % thr,
            } & mask;
            // lower: astride the wrap point (lower + range wraps), anywhere, or zero
            let lower = match rng.below(4) {
                0 | 1 => (mask - (rng.next_u64() as u128 % range.max(1))) & mask,
                2 => any(&mut rng),
                _ => 0,
            };
            let point = match rng.below(3) { 0 => lower.wrapping_add(rng.next_u64() as u128 % range.max(1)) & mask, 1 => any(&mut rng), _ => lower };
            let inverted = match rng.below(4) {
                0 => None,
                1 => Some((u64::MAX - rng.below(3), rng.word(wb))),
                2 => Some((1 + rng.below(4), rng.word(wb))),
                _ => Some((rng.next_u64(), rng.word(wb))),
            };
            let split = |x: u128| ((x >> 64) as u64, x as u64);
            let which = *rng.pick(&[RawWhich::RangeEncoderBounded, RawWhich::RangeEncoderBounded, RawWhich::RangeEncoderVec, RawWhich::RangeDecoder, RawWhich::Ans]);
            let bulk: Vec<u64> = (0..rng.usize(6)).map(|_| rng.word(wb)).collect();
            let uses = (0..1 + rng.usize(6)).map(|_| match rng.below(8) { 0 => RawUse::Dec, 1 => RawUse::View, 2 => RawUse::Queries, 3 => RawUse::Finish, _ => RawUse::Enc(rng.usize(3)) }).collect();
            PoisonTrace::RawParts { cfg, which, bulk, cap: rng.usize(12), lower: split(lower), range: split(range), point: split(point), inverted, p, probs, uses }
        }
        12 | 13 | 14 => {
            let ctor = *rng.pick(&[TableCtor::ContigFixed, TableCtor::LookupContigFixed, TableCtor::NonContigEncFixed, TableCtor::NonContigDecFixed, TableCtor::LookupNonContigFixed, TableCtor::LookupNonContigFast, TableCtor::LookupNonContigPerfect, TableCtor::NonContigEncFast, TableCtor::NonContigDecFast, TableCtor::NonContigEncPerfect, TableCtor::NonContigDecPerfect]);
            let pp = rng.usize(3);
            let p = [8u32, 12, 16][pp];
            let total = 1u64 << p;
            let n = rng.usize(7);
            let mut probs: Vec<u64> = Vec::new();
            let mut left = total;
            for i in 0..n {
                let x = match rng.below(6) {
                    0 => 0,
                    1 => total,
                    2 => total - 1,
                    3 => 1,
                    _ => if left > 1 { 1 + rng.below(left - 1) } else { 1 },
                };
                let x = if i + 1 == n && rng.chance(2, 3) { left } else { x };
                left = left.saturating_sub(x);
                probs.push(x);
            }
            let fprobs: Vec<f64> = (0..n).map(|_| rng.f64()).collect();
            let n_syms = match rng.below(4) { 0 => n, 1 => n.saturating_sub(1 + rng.usize(2)), 2 => n + 1 + rng.usize(2), _ => n };
            let queries = (0..6).map(|_| rng.next_u64()).collect();
            PoisonTrace::Tables { ctor, pp, probs, fprobs, n_syms, infer_last: rng.chance(1, 3), queries }
        }
        10 | 11 => {
            // valid float tables straight from the raw generator (no validation build)
            let (pb, p) = *rng.pick(&[(8u8, 8u8), (16, 12), (16, 16), (32, 24), (32, 32), (8, 5), (16, 9)]);
            let n = 2 + rng.usize(12);
            let style = rng.below(5);
            let probs: Vec<f64> = (0..n).map(|i| match style { 0 => rng.f64(), 1 => if rng.chance(1, 3) { 0.0 } else { rng.f64() }, 2 => (rng.f64() * 40.0 - 20.0).exp(), 3 => if i == 0 { 1.0 } else { rng.f64() * 1e-9 }, _ => 1.0 }).collect();
            let use_f32 = rng.chance(1, 2);
            let probs = if use_f32 { probs.iter().map(|&x| (x as f32) as f64).collect() } else { probs };
            PoisonTrace::ValidModel { spec: crate::model::ModelSpec { pb, p, kind: crate::model::Kind::Cat { probs, f32: use_f32, perfect: rng.chance(1, 3) } } }
        }
        0..=2 => {
            let word = *rng.pick(&[8u8, 16, 32, 64]);
            let n = rng.len(5, 16);
            let init: Vec<u64> = (0..n).map(|_| rng.word(word as u32)).collect();
            let pos = rng.usize(n + 1);
            let edit = match rng.below(6) {
                0 => BufEdit::Clear,
                1 => BufEdit::Replace((0..rng.usize(n + 1)).map(|_| rng.word(word as u32)).collect()),
                2 => BufEdit::Push(rng.word(word as u32)),
                _ => BufEdit::Truncate(rng.usize(n + 1)),
            };
            let uses = (0..1 + rng.usize(4))
                .map(|_| match rng.below(8) {
                    0 => BufUse::ReadStack(1 + rng.usize(4)),
                    1 => BufUse::ReadQueue(1 + rng.usize(4)),
                    2 => BufUse::Write(rng.word(word as u32)),
                    3 => BufUse::ReversedWrite(rng.word(word as u32)),
                    4 => BufUse::ReversedRead(1 + rng.usize(4)),
                    5 => BufUse::AnsDecode(1 + rng.usize(6)),
                    6 => BufUse::AnsEncode(1 + rng.usize(6)),
                    _ => BufUse::Seek(rng.usize(n + 2)),
                })
                .collect();
            PoisonTrace::BufMut { word, init, pos, edit, uses }
        }
        3..=5 => {
            let ctor = *rng.pick(&[FloatCtor::FastF32, FloatCtor::FastF64, FloatCtor::PerfectF64, FloatCtor::PerfectF32, FloatCtor::LazyF32, FloatCtor::LazyF64, FloatCtor::NonContigEncFast, FloatCtor::NonContigDecFast, FloatCtor::NonContigDecPerfect]);
            let n = 1 + rng.len(4, 12);
            let mut probs: Vec<f64> = (0..n).map(|_| rng.f64()).collect();
            // valid-but-extreme inputs as well as poisoned ones
            match rng.below(4) {
                0 => {}
                1 => for _ in 0..1 + rng.usize(2) { let i = rng.usize(n); probs[i] = poison_value(&mut rng); },
                2 => for p in probs.iter_mut() { if rng.chance(1, 2) { *p = 0.0; } },
                _ => for p in probs.iter_mut() { *p *= 1e-30; },
            }
            let normalization = match rng.below(6) { 0 => Some(poison_value(&mut rng)), 1 => Some(probs.iter().sum::<f64>() * (0.5 + rng.f64())), 2 => Some(1e-300), _ => None };
            let queries = (0..6).map(|_| rng.next_u64()).collect();
            PoisonTrace::Floats { ctor, pp: rng.usize(5), probs, normalization, queries }
        }
        6..=8 => {
            let lo = rng.range(-50, 50) as i32;
            let hi = lo + 1 + rng.usize(60) as i32;
            let bad = match rng.below(8) {
                0 => BadCdf::None,
                1 | 2 => BadCdf::ValueAt { at: rng.usize(6), value: poison_value(&mut rng) },
                3 => BadCdf::ValueAt { at: rng.usize(6), value: if rng.chance(1, 2) { 2.0 } else { -1.0 } },
                4 | 5 => BadCdf::Decreasing,
                6 => BadCdf::Constant(poison_value(&mut rng)),
                _ => BadCdf::InverseOnly(poison_value(&mut rng) * 1e6),
            };
            let queries = (0..6).map(|_| rng.range(lo as i64 - 2, hi as i64 + 2)).collect();
            PoisonTrace::Cdf { pp: rng.usize(4), mean: (lo + hi) as f64 / 2.0 + rng.f64(), std: 0.1 + 20.0 * rng.f64(), lo, hi, bad, queries, table: rng.chance(2, 3) }
        }
        _ => {
            let quantiles = (0..6).map(|_| match rng.below(4) { 0 => u64::MAX, 1 => 1u64 << rng.below(40), 2 => rng.next_u64(), _ => rng.below(1 << 26) }).collect();
            PoisonTrace::Quantile { pp: rng.usize(3), kind: rng.below(4) as u8, n: 2 + rng.usize(30), quantiles }
        }
    }
}
