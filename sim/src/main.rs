pub mod ans;
pub mod backend;
pub mod bits;
pub mod chain;
pub mod common;
pub mod dynops;
pub mod harness;
pub mod model;
pub mod range;
pub mod refs;
pub mod rng;
pub mod skew;
pub mod store;
pub mod worlds;

use std::io::Read;

/// panics are verdicts here, not diagnostics; SIMCHECK_VERBOSE=1 shows them
pub fn quiet_panics() {
    if std::env::var("SIMCHECK_VERBOSE").is_err() {
        std::panic::set_hook(Box::new(|_| {}));
    }
}

fn usage() -> ! {
    eprintln!("usage: simcheck check <prop> [--thorough] [--runs N] [--jobs N] | replay <file> | worker ... | exec-stdin <prop>");
    std::process::exit(2)
}

fn runs_for(prop: &str, thorough: bool) -> u64 {
    let (q, t) = match prop {
        "C01" => (60_000, 1_500_000),
        "C02" => (60_000, 1_500_000),
        "C11" => (60_000, 1_500_000),
        "C05" => (60_000, 1_500_000),
        "C13" => (60_000, 1_500_000),
        "C14" => (60_000, 1_500_000),
        "C16" => (100_000, 3_000_000),
        "C17" => (200_000, 6_000_000),
        "C04" => (60_000, 1_500_000),
        "C06" => (60_000, 1_500_000),
        "C07" => (40_000, 1_000_000),
        "C08" => (40_000, 1_000_000),
        "C09" => (40_000, 1_000_000),
        "C12" => (20_000, 300_000),
        "C18" => (40_000, 1_000_000),
        _ => (20_000, 200_000),
    };
    if thorough { t } else { q }
}

fn level_for(prop: &str) -> &'static str {
    match prop {
        "C09" => "fault_enumeration",
        _ => "exploration",
    }
}

fn main() {
    let args: Vec<String> = std::env::args().collect();
    if args.len() < 2 {
        usage();
    }
    match args[1].as_str() {
        "check" => {
            if args.len() < 3 {
                usage();
            }
            let prop = args[2].clone();
            let mut thorough = std::env::var("VERIF_TIER").map(|t| t == "thorough").unwrap_or(false);
            let mut runs = None;
            let mut jobs = std::thread::available_parallelism().map(|n| n.get()).unwrap_or(8).min(16);
            let mut i = 3;
            while i < args.len() {
                match args[i].as_str() {
                    "--thorough" => thorough = true,
                    "--quick" => thorough = false,
                    "--runs" => {
                        i += 1;
                        runs = args.get(i).and_then(|s| s.parse().ok());
                    }
                    "--jobs" => {
                        i += 1;
                        jobs = args.get(i).and_then(|s| s.parse().ok()).unwrap_or(jobs);
                    }
                    _ => usage(),
                }
                i += 1;
            }
            let seed = std::env::var("VERIF_SEED").ok().and_then(|s| s.parse::<u64>().ok()).unwrap_or(1);
            if worlds::worlds_for(&prop).is_empty() {
                eprintln!("harness: no check registered for {}", prop);
                std::process::exit(2);
            }
            let opts = harness::CheckOpts {
                runs: runs.unwrap_or_else(|| runs_for(&prop, thorough)),
                prop: prop.clone(),
                thorough,
                seed,
                jobs,
                level: level_for(&prop).to_string(),
            };
            std::process::exit(harness::check(&opts));
        }
        "replay" => {
            if args.len() < 3 {
                usage();
            }
            std::process::exit(harness::replay(std::path::Path::new(&args[2])));
        }
        "worker" => {
            // worker <prop> <seed> <from> <to> <tier> [progress]
            if args.len() < 7 {
                usage();
            }
            let prop = &args[2];
            let seed: u64 = args[3].parse().unwrap();
            let from: u64 = args[4].parse().unwrap();
            let to: u64 = args[5].parse().unwrap();
            let thorough = args[6] == "thorough";
            let progress = args.get(7).map_or(false, |s| s == "progress");
            let out = harness::worker(prop, seed, from, to, thorough, progress);
            println!("RESULT {}", serde_json::to_string(&out).unwrap());
        }
        "exec-stdin" => {
            if args.len() < 3 {
                usage();
            }
            crate::quiet_panics();
            let mut s = String::new();
            std::io::stdin().read_to_string(&mut s).unwrap();
            let trace: worlds::Trace = match serde_json::from_str(&s) {
                Ok(t) => t,
                Err(e) => {
                    eprintln!("harness: bad trace: {}", e);
                    std::process::exit(2);
                }
            };
            let mut st = common::Stats::default();
            match harness::run_trace(&args[2], &trace, &mut st) {
                Ok(()) => println!("VERDICT held"),
                Err(v) => println!("VERDICT {}", serde_json::to_string(&v).unwrap()),
            }
        }
        "gen" => {
            // gen <prop> <index>: print the generated trace (debugging aid)
            let prop = &args[2];
            let idx: u64 = args[3].parse().unwrap();
            let seed = std::env::var("VERIF_SEED").ok().and_then(|s| s.parse::<u64>().ok()).unwrap_or(1);
            let t = worlds::generate(prop, rng::run_seed(seed, prop, idx), idx, false);
            println!("{}", serde_json::to_string_pretty(&t).unwrap());
        }
        _ => usage(),
    }
}
