pub mod ans;
pub mod backend;
pub mod bits;
pub mod chain;
pub mod common;
pub mod diag;
pub mod dynops;
pub mod garbage;
pub mod harness;
pub mod model;
pub mod poison;
pub mod range;
pub mod refs;
pub mod rng;
pub mod skew;
pub mod store;
pub mod vectors;
pub mod worlds;

use std::io::Read;

/// panics are verdicts here, not diagnostics; SIMCHECK_VERBOSE=1 shows them
pub fn quiet_panics() {
    if std::env::var("SIMCHECK_VERBOSE").is_err() {
        std::panic::set_hook(Box::new(|_| {}));
    }
}

fn usage() -> ! {
    eprintln!("usage: simcheck check <prop> [--thorough] [--runs N] [--jobs N] | replay <file> | worker ... | exec-stdin <prop>");
    std::process::exit(2)
}

fn runs_for(prop: &str, thorough: bool) -> u64 {
    let (q, t) = match prop {
        "C01" => (600_000, 30_000_000),
        "C02" => (400_000, 20_000_000),
        "C04" => (1_000_000, 50_000_000),
        "C05" => (1_500_000, 75_000_000),
        "C06" => (600_000, 30_000_000),
        "C07" => (400_000, 20_000_000),
        "C08" => (400_000, 20_000_000),
        "C09" => (400_000, 20_000_000),
        "C10" => (2_000_000, 100_000_000),
        "C11" => (400_000, 20_000_000),
        "C12" => (100_000, 1_500_000),
        "C13" => (1_500_000, 75_000_000),
        "C14" => (1_500_000, 75_000_000),
        "C16" => (2_000_000, 100_000_000),
        "C17" => (2_000_000, 100_000_000),
        "C18" => (400_000, 20_000_000),
        "C20" => (400_000, 6_000_000),
        _ => (20_000, 200_000),
    };
    if thorough { t } else { q }
}

fn level_for(prop: &str) -> &'static str {
    match prop {
        "C09" => "fault_enumeration",
        _ => "exploration",
    }
}

fn main() {
    let args: Vec<String> = std::env::args().collect();
    if args.len() < 2 {
        usage();
    }
    match args[1].as_str() {
        "check" => {
            if args.len() < 3 {
                usage();
            }
            let prop = args[2].clone();
            let mut thorough = std::env::var("VERIF_TIER").map(|t| t == "thorough").unwrap_or(false);
            let mut runs = None;
            let mut jobs = std::thread::available_parallelism().map(|n| n.get()).unwrap_or(8).min(16);
            let mut i = 3;
            while i < args.len() {
                match args[i].as_str() {
                    "--thorough" => thorough = true,
                    "--quick" => thorough = false,
                    "--runs" => {
                        i += 1;
                        runs = args.get(i).and_then(|s| s.parse().ok());
                    }
                    "--jobs" => {
                        i += 1;
                        jobs = args.get(i).and_then(|s| s.parse().ok()).unwrap_or(jobs);
                    }
                    _ => usage(),
                }
                i += 1;
            }
            let seed = std::env::var("VERIF_SEED").ok().and_then(|s| s.parse::<u64>().ok()).unwrap_or(1);
            if worlds::worlds_for(&prop).is_empty() {
                eprintln!("harness: no check registered for {}", prop);
                std::process::exit(2);
            }
            let opts = harness::CheckOpts {
                runs: runs.unwrap_or_else(|| runs_for(&prop, thorough)),
                prop: prop.clone(),
                thorough,
                seed,
                jobs,
                level: level_for(&prop).to_string(),
                miri_runs: if prop == "C20" && thorough { std::env::var("SIMCHECK_MIRI_RUNS").ok().and_then(|s| s.parse().ok()).unwrap_or(640) } else { std::env::var("SIMCHECK_MIRI_RUNS").ok().and_then(|s| s.parse().ok()).unwrap_or(0) },
            };
            std::process::exit(harness::check(&opts));
        }
        "replay" => {
            if args.len() < 3 {
                usage();
            }
            std::process::exit(harness::replay(std::path::Path::new(&args[2])));
        }
        "worker" => {
            // worker <prop> <seed> <from> <to> <tier> [progress]
            if args.len() < 7 {
                usage();
            }
            let prop = &args[2];
            let seed: u64 = args[3].parse().unwrap();
            let from: u64 = args[4].parse().unwrap();
            let to: u64 = args[5].parse().unwrap();
            let thorough = args[6] == "thorough";
            let progress = args.get(7).map_or(false, |s| s == "progress");
            let out = harness::worker(prop, seed, from, to, thorough, progress);
            println!("RESULT {}", serde_json::to_string(&out).unwrap());
        }
        "exec-stdin" => {
            if args.len() < 3 {
                usage();
            }
            crate::quiet_panics();
            let mut s = String::new();
            std::io::stdin().read_to_string(&mut s).unwrap();
            let trace: worlds::Trace = match serde_json::from_str(&s) {
                Ok(t) => t,
                Err(e) => {
                    eprintln!("harness: bad trace: {}", e);
                    std::process::exit(2);
                }
            };
            let mut st = common::Stats::default();
            match harness::run_trace(&args[2], &trace, &mut st) {
                Ok(()) => println!("VERDICT held"),
                Err(v) => println!("VERDICT {}", serde_json::to_string(&v).unwrap()),
            }
        }
        "digest" => {
            // digest <prop> <from> <to>: one line per run with trace hash, verdict and a hash
            // of the reach counters (used by `selftest determinism`)
            quiet_panics();
            let prop = &args[2];
            let from: u64 = args[3].parse().unwrap();
            let to: u64 = args[4].parse().unwrap();
            let seed = std::env::var("VERIF_SEED").ok().and_then(|s| s.parse::<u64>().ok()).unwrap_or(1);
            for i in from..to {
                let t = worlds::generate(prop, rng::run_seed(seed, prop, i), i, false);
                let mut st = common::Stats::default();
                let v = harness::run_trace(prop, &t, &mut st);
                let ch = rng::hash_str(&serde_json::to_string(&st.counters).unwrap()) ^ rng::hash_str(&serde_json::to_string(&st.states).unwrap());
                println!("{} {:016x} {:016x} {}", i, harness::trace_hash(&t), ch, match v { Ok(()) => "held".to_string(), Err(v) => format!("{}@{}", v.class(), v.op) });
            }
        }
        "selftest" => {
            // selftest determinism [runs-per-property]
            let n: u64 = args.get(3).and_then(|s| s.parse().ok()).unwrap_or(2000);
            let exe = std::env::current_exe().unwrap();
            let props = ["C01", "C02", "C04", "C05", "C06", "C07", "C08", "C09", "C10", "C11", "C12", "C13", "C14", "C16", "C17", "C18", "C20"];
            let mut bad = 0;
            for p in props {
                // (a) one process doing everything, (b) 4 processes, (c) 16 processes, (d) another VERIF_SEED twice
                let run = |parts: u64, seed: &str| -> String {
                    let chunk = (n + parts - 1) / parts;
                    let mut kids = Vec::new();
                    let mut a = 0;
                    while a < n {
                        let b = (a + chunk).min(n);
                        kids.push(std::process::Command::new(&exe).args(["digest", p, &a.to_string(), &b.to_string()]).env("VERIF_SEED", seed).stderr(std::process::Stdio::null()).stdout(std::process::Stdio::piped()).spawn().unwrap());
                        a = b;
                    }
                    kids.into_iter().map(|k| String::from_utf8_lossy(&k.wait_with_output().unwrap().stdout).to_string()).collect::<Vec<_>>().join("")
                };
                let a = run(1, "1");
                let b = run(4, "1");
                let c = run(16, "1");
                let d1 = run(3, "7");
                let d2 = run(16, "7");
                let lines = a.lines().count() as u64;
                let ok = a == b && b == c && d1 == d2 && lines == n && a != d1;
                println!("selftest determinism {}: {} runs x 5 executions (1/4/16 processes; 2 seeds): {}", p, n, if ok { "identical digests" } else { "MISMATCH" });
                if !ok { bad += 1; }
            }
            std::process::exit(if bad == 0 { 0 } else { 2 });
        }
        "gen" => {
            // gen <prop> <index> [quick|thorough] [seed]: print the generated trace as JSON
            quiet_panics();
            let prop = &args[2];
            let idx: u64 = args[3].parse().unwrap();
            let thorough = args.get(4).map_or(false, |s| s == "thorough");
            let seed = args.get(5).and_then(|s| s.parse::<u64>().ok()).or_else(|| std::env::var("VERIF_SEED").ok().and_then(|s| s.parse::<u64>().ok())).unwrap_or(1);
            let t = worlds::generate(prop, rng::run_seed(seed, prop, idx), idx, thorough);
            println!("{}", serde_json::to_string(&t).unwrap());
        }
        _ => usage(),
    }
}
