//! Byte-exact example outputs printed in the project's own documentation (C06), with
//! file:line provenance.  Only examples whose models exist on the Rust side are used.

use crate::ans::{AnsOp, AnsTrace, Backend, Init};
use crate::model::{Fam, Kind, ModelSpec};
use crate::range::{RangeOp, RangeTrace, Sink, Source, Suffix};
use crate::worlds::Trace;

fn gauss(mean: f64, std: f64, lo: i32, hi: i32) -> ModelSpec {
    ModelSpec { pb: 32, p: 24, kind: Kind::Quant { fam: Fam::Gaussian, a: mean, b: std, lo, hi, sym: 0 } }
}
fn cat(probs: &[f64]) -> ModelSpec {
    ModelSpec { pb: 32, p: 24, kind: Kind::Cat { probs: probs.to_vec(), f32: false, perfect: false } }
}

/// ANS: `encode_reverse(symbols, models)` == encode symbols back to front
fn ans_enc(models: Vec<ModelSpec>, msg: &[(i64, usize)], expect: &[u64]) -> Trace {
    let ops = msg.iter().rev().map(|(s, m)| AnsOp::Enc { sym: *s, m: *m }).collect();
    Trace::Ans(AnsTrace { cfg: 5, backend: Backend::Vec, init: Init::Empty, models, ops, expect: Some(expect.to_vec()), expect_decoded: None, reprs: vec![] })
}
fn ans_dec(models: Vec<ModelSpec>, words: &[u64], ms: &[usize], expect: &[i64]) -> Trace {
    let ops = ms.iter().map(|m| AnsOp::Dec { m: *m }).collect();
    Trace::Ans(AnsTrace { cfg: 5, backend: Backend::Vec, init: Init::Compressed(words.to_vec()), models, ops, expect: None, expect_decoded: Some(expect.to_vec()), reprs: vec![] })
}
fn range_enc(models: Vec<ModelSpec>, msg: &[(i64, usize)], expect: &[u64]) -> Trace {
    let ops = msg.iter().map(|(s, m)| RangeOp::Enc { sym: *s, m: *m }).collect();
    Trace::Range(RangeTrace { cfg: 5, sink: Sink::Vec, prefix: vec![], models, ops, source: Source::CursorVec, suffix: Suffix::None, seeks: vec![], expect: Some(expect.to_vec()), reassemble_at: vec![], reprs: vec![] })
}

pub fn vectors() -> Vec<Trace> {
    let readme_means = [35.2, -1.7, 30.1, 71.2, -75.1];
    let readme_stds = [10.1, 25.3, 23.8, 35.4, 3.9];
    let readme_syms = [23i64, -15, 78, 43, -69];
    let readme_models: Vec<ModelSpec> = (0..5).map(|i| gauss(readme_means[i], readme_stds[i], -100, 100)).collect();
    let readme_msg: Vec<(i64, usize)> = (0..5).map(|i| (readme_syms[i], i)).collect();
    let c3 = cat(&[0.1, 0.6, 0.3]);
    let g3: Vec<ModelSpec> = vec![gauss(10.3, 5.2, -100, 100), gauss(-4.7, 24.2, -100, 100), gauss(20.5, 3.1, -100, 100)];
    let c5 = vec![cat(&[0.1, 0.2, 0.3, 0.1, 0.3]), cat(&[0.3, 0.2, 0.2, 0.2, 0.1])];
    let nine = [0i64, 2, 1, 2, 0, 2, 0, 2, 1];
    let ex3_means = [2.3, 6.1, -8.5, 4.1, 1.3];
    let ex3_stds = [6.2, 5.3, 3.8, 3.2, 4.7];
    let mut ex3_models: Vec<ModelSpec> = (0..5).map(|i| gauss(ex3_means[i], ex3_stds[i], -50, 50)).collect();
    ex3_models.push(cat(&[0.2, 0.5, 0.3]));
    let ex3_msg: Vec<(i64, usize)> = vec![(6, 0), (10, 1), (-4, 2), (2, 3), (5, 4), (2, 5), (1, 5), (0, 5), (2, 5)];
    vec![
        // src/lib.rs:131 / README-rust.md: ANS, quantized Gaussians
        ans_enc(readme_models.clone(), &readme_msg, &[0x421C_7EC3, 0x000B_8ED1]),
        // src/lib.rs:160: decoding example
        ans_dec(readme_models.clone(), &[0x421C_7EC3, 0x000B_8ED1], &[0, 1, 2, 3, 4], &readme_syms),
        // src/lib.rs:244 / README-rust.md:195: range coder
        range_enc(readme_models, &readme_msg, &[0x1C31EFEB, 0x87B430DA]),
        // tests/python/test_docexamples.py test_module_example3 (line 111)
        range_enc(ex3_models, &ex3_msg, &[3176507208]),
        // test_ans_encode_reverse2 (line 366)
        ans_enc(vec![c3.clone()], &nine.iter().map(|s| (*s, 0)).collect::<Vec<_>>(), &[1276728145, 172]),
        // test_ans_encode_reverse3 (line 384)
        ans_enc(g3.clone(), &[(12, 0), (-13, 1), (25, 2)], &[597775281, 3]),
        // test_ans_encode_reverse4 (line 400)
        ans_enc(c5.clone(), &[(3, 0), (1, 1)], &[45298481]),
        // test_ans_decode1 / 2 / 3 / 4 (lines 294-345)
        ans_dec(vec![c3.clone()], &[2514924296, 114], &[0], &[2]),
        ans_dec(vec![c3.clone()], &[1441153686, 108], &[0; 9], &[2, 0, 0, 1, 2, 2, 1, 2, 2]),
        ans_dec(g3.clone(), &[597775281, 3], &[0, 1, 2], &[12, -13, 25]),
        ans_dec(c5.clone(), &[2142112014, 31], &[0, 1], &[3, 1]),
        // test_range_coder_encode2 / 3 / 4 (lines 555-589)
        range_enc(vec![c3], &nine.iter().map(|s| (*s, 0)).collect::<Vec<_>>(), &[369323576]),
        range_enc(g3, &[(12, 0), (-13, 1), (25, 2)], &[2655472005]),
        range_enc(c5, &[(3, 0), (1, 1)], &[2705829254]),
    ]
}
