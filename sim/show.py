import json,sys
for f in sys.argv[1:]:
    r=json.load(open(f))
    w=list(r["trace"].keys())[0]
    t=r["trace"][w]
    print("==",f, r["violation"])
    for k,v in t.items():
        if k in("models","ops"): continue
        print("  ",k,json.dumps(v))
    for i,m in enumerate(t.get("models",[])): print("  model",i,json.dumps(m))
    for i,o in enumerate(t.get("ops",[])): print("  op",i,json.dumps(o))
